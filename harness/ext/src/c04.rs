//! C04 — reported field offsets locate the field's bytes in the canonical encoding.
//! Element layer: the InputRepr / OutputRepr offset tables and Input::{predicate_offset,
//! predicate_data_offset} against the real encoder, every field symbolic.
//! Transaction layer: the `field::*` offset accessors of a Script against `to_bytes()`, before and
//! after `precompute` (cached metadata).
use fuel_tx::{
    field::*, input::Input, output::{Output, OutputRepr}, policies::Policies, Cacheable, Transaction, TxPointer, UtxoId, Witness,
};
use fuel_types::{canonical::Serialize, Address, AssetId, BlockHeight, Bytes32, ChainId, ContractId, Nonce};
use fuel_tx::field::Policies as PoliciesField;

fn b32() -> [u8; 32] { kani::any() }
fn addr() -> Address { Address::from(b32()) }
fn asset() -> AssetId { AssetId::from(b32()) }
fn utxo() -> UtxoId { UtxoId::new(Bytes32::from(b32()), kani::any()) }
fn txp() -> TxPointer { TxPointer::new(BlockHeight::from(kani::any::<u32>()), kani::any()) }
fn bytes<const L: usize>() -> Vec<u8> {
    let mut v = Vec::with_capacity(L);
    let mut i = 0;
    while i < L { v.push(kani::any()); i += 1; }
    v
}

macro_rules! h {
    ($name:ident, $unw:literal, $body:expr) => {
        #[kani::proof] #[kani::unwind($unw)]
        #[kani::stub(core::result::Result::expect, crate::mk::expect_model)]
        #[kani::stub(core::result::Result::unwrap, crate::mk::unwrap_model)]
        pub fn $name() { $body; }
    };
}

/// `b[off .. off+f.len()] == f`.
fn at(b: &[u8], off: Option<usize>, f: &[u8]) -> bool {
    match off {
        None => false,
        Some(o) => {
            if o > b.len() || f.len() > b.len() - o { return false }
            // slice equality = one memcmp (bounded by --unwindset memcmp.0, see lib/registry.py)
            b[o..o + f.len()] == *f
        }
    }
}
fn padded(n: usize) -> usize { (n + 7) / 8 * 8 }

/// Every offset the input reports must locate the canonical bytes of the corresponding field, and
/// offsets of fields the variant does not have must be None.
fn input_offsets(i: Input) {
    let b = i.to_bytes();
    let r = i.repr();
    // each getter returning Some(field) <=> the table has an offset for that variant family
    match i.utxo_id() { Some(u) => assert!(at(&b, r.utxo_id_offset(), &u.to_bytes())), None => assert!(r.utxo_id_offset().is_none()) }
    match i.input_owner() { Some(o) => assert!(at(&b, r.owner_offset(), o.as_ref())), None => {} }
    match i.asset_id(&AssetId::zeroed()) {
        Some(a) if i.is_coin() => assert!(at(&b, r.asset_id_offset(), a.as_ref())),
        _ => {}
    }
    match i.tx_pointer() { Some(t) => assert!(at(&b, r.tx_pointer_offset(), &t.to_bytes())), None => assert!(r.tx_pointer_offset().is_none()) }
    match i.contract_id() { Some(c) => assert!(at(&b, r.contract_id_offset(), c.as_ref())), None => assert!(r.contract_id_offset().is_none()) }
    match i.balance_root() { Some(c) => assert!(at(&b, r.contract_balance_root_offset(), c.as_ref())), None => assert!(r.contract_balance_root_offset().is_none()) }
    match i.state_root() { Some(c) => assert!(at(&b, r.contract_state_root_offset(), c.as_ref())), None => assert!(r.contract_state_root_offset().is_none()) }
    match i.sender() { Some(c) => assert!(at(&b, r.message_sender_offset(), c.as_ref())), None => assert!(r.message_sender_offset().is_none()) }
    match i.recipient() { Some(c) => assert!(at(&b, r.message_recipient_offset(), c.as_ref())), None => assert!(r.message_recipient_offset().is_none()) }
    match i.nonce() { Some(c) => assert!(at(&b, r.message_nonce_offset(), c.as_ref())), None => assert!(r.message_nonce_offset().is_none()) }
    match i.input_data() {
        Some(d) if i.is_message() => assert!(at(&b, r.data_offset(), d)),
        _ => {}
    }
    match i.input_predicate() {
        Some(p) => {
            assert!(at(&b, i.predicate_offset(), p));
            // padded: the bytes after the predicate up to the next word are zero, then the predicate data
            let d = i.input_predicate_data().unwrap();
            assert!(i.predicate_data_offset() == i.predicate_offset().map(|o| o + padded(p.len())));
            assert!(at(&b, i.predicate_data_offset(), d));
        }
        None => { assert!(i.predicate_offset().is_none()); assert!(i.predicate_data_offset().is_none()); }
    }
    kani::cover!(true, "input offsets checked");
    core::mem::forget(b);
    core::mem::forget(i);
}

h!(c04_el_coin_signed, 70, input_offsets(Input::coin_signed(utxo(), addr(), kani::any(), asset(), txp(), kani::any())));
h!(c04_el_coin_predicate_l3_l2, 70, input_offsets(Input::coin_predicate(utxo(), addr(), kani::any(), asset(), txp(), kani::any(), bytes::<3>(), bytes::<2>())));
h!(c04_el_coin_predicate_l8_l0, 70, input_offsets(Input::coin_predicate(utxo(), addr(), kani::any(), asset(), txp(), kani::any(), bytes::<8>(), bytes::<0>())));
h!(c04_el_contract, 70, input_offsets(Input::contract(utxo(), Bytes32::from(b32()), Bytes32::from(b32()), txp(), ContractId::from(b32()))));
h!(c04_el_message_coin_signed, 70, input_offsets(Input::message_coin_signed(addr(), addr(), kani::any(), Nonce::from(b32()), kani::any())));
h!(c04_el_message_coin_predicate_l7_l1, 70, input_offsets(Input::message_coin_predicate(addr(), addr(), kani::any(), Nonce::from(b32()), kani::any(), bytes::<7>(), bytes::<1>())));
h!(c04_el_message_data_signed_l9, 70, input_offsets(Input::message_data_signed(addr(), addr(), kani::any(), Nonce::from(b32()), kani::any(), bytes::<9>())));
h!(c04_el_message_data_predicate_l1_l2_l1, 70, input_offsets(Input::message_data_predicate(addr(), addr(), kani::any(), Nonce::from(b32()), kani::any(), bytes::<1>(), bytes::<2>(), bytes::<1>())));
h!(c04_el_message_data_predicate_l8_l1_l0, 70, input_offsets(Input::message_data_predicate(addr(), addr(), kani::any(), Nonce::from(b32()), kani::any(), bytes::<8>(), bytes::<1>(), bytes::<0>())));

/// Only the predicate / predicate-data offsets (the message-data-predicate variant with three vectors
/// is too heavy for the full field table in the quick tier).
fn predicate_offsets(i: Input) {
    let b = i.to_bytes();
    let p = i.input_predicate().unwrap();
    let d = i.input_predicate_data().unwrap();
    assert!(at(&b, i.predicate_offset(), p));
    assert!(i.predicate_data_offset() == i.predicate_offset().map(|o| o + padded(p.len())));
    assert!(at(&b, i.predicate_data_offset(), d));
    if let Some(md) = i.input_data() { if i.is_message() { assert!(at(&b, i.repr().data_offset(), md)); } }
    kani::cover!(true, "predicate offsets checked");
    core::mem::forget(b);
    core::mem::forget(i);
}
h!(c04_el_msgdata_predicate_offsets_l1_l2_l1, 70, predicate_offsets(Input::message_data_predicate(addr(), addr(), kani::any(), Nonce::from(b32()), kani::any(), bytes::<1>(), bytes::<2>(), bytes::<1>())));
h!(c04_el_msgdata_predicate_offsets_l3_l4_l0, 70, predicate_offsets(Input::message_data_predicate(addr(), addr(), kani::any(), Nonce::from(b32()), kani::any(), bytes::<3>(), bytes::<4>(), bytes::<0>())));

fn output_offsets(o: Output) {
    let b = o.to_bytes();
    let r = OutputRepr::from_output(&o);
    match o.to() { Some(t) => assert!(at(&b, r.to_offset(), t.as_ref())), None => assert!(r.to_offset().is_none()) }
    match o.asset_id() { Some(t) => assert!(at(&b, r.asset_id_offset(), t.as_ref())), None => assert!(r.asset_id_offset().is_none()) }
    match o.balance_root() { Some(t) => assert!(at(&b, r.contract_balance_root_offset(), t.as_ref())), None => assert!(r.contract_balance_root_offset().is_none()) }
    match (&o, o.state_root()) {
        (Output::Contract(_), Some(t)) => assert!(at(&b, r.contract_state_root_offset(), t.as_ref())),
        (Output::ContractCreated { .. }, Some(t)) => assert!(at(&b, r.contract_created_state_root_offset(), t.as_ref())),
        _ => { assert!(r.contract_state_root_offset().is_none()); assert!(r.contract_created_state_root_offset().is_none()); }
    }
    match o.contract_id() { Some(t) => assert!(at(&b, r.contract_id_offset(), t.as_ref())), None => assert!(r.contract_id_offset().is_none()) }
    kani::cover!(true, "output offsets checked");
    core::mem::forget(b);
}
h!(c04_el_output_coin, 70, output_offsets(Output::coin(addr(), kani::any(), asset())));
h!(c04_el_output_contract, 70, output_offsets(Output::contract(kani::any(), Bytes32::from(b32()), Bytes32::from(b32()))));
h!(c04_el_output_change, 70, output_offsets(Output::change(addr(), kani::any(), asset())));
h!(c04_el_output_variable, 70, output_offsets(Output::variable(addr(), kani::any(), asset())));
h!(c04_el_output_contract_created, 70, output_offsets(Output::contract_created(ContractId::from(b32()), Bytes32::from(b32()))));

// ---------------------------------------------------------------------------------------------
// Transaction layer (Script)
// ---------------------------------------------------------------------------------------------
macro_rules! th {
    ($name:ident, $unw:literal, $body:expr) => {
        #[kani::proof] #[kani::unwind($unw)]
        #[kani::stub(core::result::Result::expect, crate::mk::expect_model)]
        #[kani::stub(core::result::Result::unwrap, crate::mk::unwrap_model)]
        #[kani::stub(fuel_crypto::Hasher::input, crate::c03::hasher_input_model)]
        #[kani::stub(fuel_crypto::Hasher::finalize, crate::c03::hasher_finalize_model)]
        pub fn $name() { $body; }
    };
}
fn script_offsets<const SL: usize, const DL: usize, const NW: usize>(ins: Vec<Input>, outs: Vec<Output>, precompute: bool) {
    use fuel_tx::policies::PolicyType;
    let mut pol = Policies::new();
    pol.set(PolicyType::Tip, Some(kani::any())); // the policy SET is a harness constant (it fixes every later offset)
    pol.set(PolicyType::MaxFee, Some(kani::any()));
    let mut wits = Vec::with_capacity(NW);
    let mut k = 0;
    while k < NW { wits.push(Witness::from(bytes::<3>())); k += 1; }
    let mut tx = Transaction::script(kani::any(), bytes::<SL>(), bytes::<DL>(), pol, ins, outs, wits);
    *tx.receipts_root_mut() = Bytes32::from(b32());
    if precompute {
        tx.precompute(&ChainId::new(0)).unwrap();
    }
    let b = tx.to_bytes();
    assert!(at(&b, Some(tx.script_gas_limit_offset()), &tx.script_gas_limit().to_be_bytes()));
    assert!(at(&b, Some(tx.receipts_root_offset()), tx.receipts_root().as_ref()));
    assert!(at(&b, Some(tx.script_offset()), tx.script()));
    assert!(at(&b, Some(tx.script_data_offset()), tx.script_data()));
    // the policy *values* (dynamic part) live at policies_offset; the bit mask is part of the static body
    assert!(at(&b, Some(tx.policies_offset()), &tx.policies().to_bytes()[8..]));
    let n_in = tx.inputs().len();
    let mut i = 0;
    while i < n_in {
        let ib = tx.inputs()[i].to_bytes();
        assert!(at(&b, tx.inputs_offset_at(i), &ib));
        match tx.inputs()[i].input_predicate() {
            Some(p) => match tx.inputs_predicate_offset_at(i) {
                Some((o, l)) => { assert!(at(&b, Some(o), p)); assert!(l == padded(p.len())); }
                None => assert!(false, "predicate offset missing"),
            },
            None => assert!(tx.inputs_predicate_offset_at(i).is_none()),
        }
        i += 1;
    }
    if n_in > 0 { assert!(tx.inputs_offset() == tx.inputs_offset_at(0).unwrap()); }
    assert!(tx.inputs_offset_at(n_in).is_none());
    let n_out = tx.outputs().len();
    let mut i = 0;
    while i < n_out {
        assert!(at(&b, tx.outputs_offset_at(i), &tx.outputs()[i].to_bytes()));
        i += 1;
    }
    assert!(tx.outputs_offset_at(n_out).is_none());
    let mut i = 0;
    while i < NW {
        assert!(at(&b, tx.witnesses_offset_at(i), &tx.witnesses()[i].to_bytes()));
        i += 1;
    }
    assert!(tx.witnesses_offset_at(NW).is_none());
    // an arbitrary index beyond the vectors never yields an offset
    let j: usize = kani::any();
    kani::assume(j >= 2);
    assert!(tx.inputs_offset_at(j).is_none() || j < n_in);
    assert!(tx.outputs_offset_at(j).is_none() || j < n_out);
    assert!(tx.witnesses_offset_at(j).is_none() || j < NW);
    kani::cover!(true, "script offsets checked");
    core::mem::forget(b);
    core::mem::forget(tx);
}

th!(c04_tx_script_empty_s4_d0, 70, script_offsets::<4, 0, 0>(Vec::new(), Vec::new(), false));
th!(c04_tx_script_empty_s7_d9_w1, 70, script_offsets::<7, 9, 1>(Vec::new(), Vec::new(), false));
th!(c04_tx_script_empty_s7_d9_w1_cached, 70, script_offsets::<7, 9, 1>(Vec::new(), Vec::new(), true));
th!(c04_tx_script_empty_s4_d0_w2, 70, script_offsets::<4, 0, 2>(Vec::new(), Vec::new(), false));
th!(c04_tx_script_coin_change_s7, 70, script_offsets::<7, 1, 1>(
    vec![Input::coin_signed(utxo(), addr(), kani::any(), asset(), txp(), kani::any())],
    vec![Output::change(addr(), kani::any(), asset())], false));
th!(c04_tx_script_pred_s7_cached, 70, script_offsets::<7, 1, 0>(
    vec![Input::coin_predicate(utxo(), addr(), kani::any(), asset(), txp(), kani::any(), bytes::<5>(), bytes::<1>())],
    vec![Output::coin(addr(), kani::any(), asset())], true));
th!(c04_tx_script_contract_msgpred_s7, 70, script_offsets::<7, 0, 0>(
    vec![Input::contract(utxo(), Bytes32::from(b32()), Bytes32::from(b32()), txp(), ContractId::from(b32())),
         Input::message_data_predicate(addr(), addr(), kani::any(), Nonce::from(b32()), kani::any(), bytes::<3>(), bytes::<4>(), bytes::<1>())],
    vec![Output::contract(0, Bytes32::from(b32()), Bytes32::from(b32()))], false));
