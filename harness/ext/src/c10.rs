//! C10 — binary Merkle proofs are complete and sound.
use crate::mk::*;
use crate::c09::Leaf;
use fuel_merkle::binary::{self, MerkleTree};

type Tree = MerkleTree<NodesT, StPtr<16>>;

macro_rules! h {
    ($fname:ident, $body:block) => {
        #[kani::proof] #[kani::unwind(20)]
        #[kani::stub(fuel_merkle::binary::hash::leaf_sum, toy_leaf)]
        #[kani::stub(fuel_merkle::binary::hash::node_sum, toy_node)]
        #[kani::stub(core::result::Result::expect, expect_model)]
        #[kani::stub(core::result::Result::unwrap, unwrap_model)]
        pub fn $fname() $body
    };
}

/// RFC 6962 §2.1.1 audit-path recomputation: the root implied by (index, count, leaf hash, path),
/// or None if the path length does not fit the (index, count) shape.  `path` is leaf-to-root.
pub fn root_from_path(i: u64, n: u64, leaf: &B32, path: &[B32]) -> Option<B32> {
    if n == 1 {
        return if path.is_empty() { Some(*leaf) } else { None }
    }
    if path.is_empty() { return None }
    let k: u64 = if n > 16 { 16 } else if n > 8 { 8 } else if n > 4 { 4 } else if n > 2 { 2 } else { 1 };
    let (last, rest) = (path[path.len() - 1], &path[..path.len() - 1]);
    if i < k {
        match root_from_path(i, k, leaf, rest) { Some(s) => Some(h_node(&s, &last)), None => None }
    } else {
        match root_from_path(i - k, n - k, leaf, rest) { Some(s) => Some(h_node(&last, &s)), None => None }
    }
}

/// Native replay only: re-check `verify == reference` for every root some fold of the proof can
/// produce with the real hash (see mk::candidate_roots).
#[cfg(verif_playback)]
fn replay_candidates(data: &Leaf, proof: &Vec<B32>, index: u64, count: u64) {
    for root in candidate_roots(&h_leaf(&data.b), proof, h_node) {
        let got = binary::verify(&root, &data.b, proof, index, count);
        let expect = index < count
            && match root_from_path(index, count, &h_leaf(&data.b), proof) { Some(r) => eq32(&r, &root), None => false };
        assert!(got == expect, "verify disagrees with the RFC 6962 recomputation for a SHA-256 witness");
    }
}
#[cfg(not(verif_playback))]
fn replay_candidates(_data: &Leaf, _proof: &Vec<B32>, _index: u64, _count: u64) {}

/// Soundness / "exactly when": verify(root, data, proof, index, count) == (index < count and the
/// recomputation reaches root), for symbolic root, data, every proof entry and index; (count, proof
/// length) are harness constants.
fn sound<const COUNT: u64, const LEN: usize>() {
    let root: B32 = kani::any();
    let data = Leaf { b: kani::any() };
    let index: u64 = kani::any();
    let mut proof: Vec<B32> = Vec::with_capacity(LEN);
    let mut i = 0;
    while i < LEN { proof.push(kani::any()); i += 1; }
    let got = binary::verify(&root, &data.b, &proof, index, COUNT);
    let expect = index < COUNT
        && match root_from_path(index, COUNT, &h_leaf(&data.b), &proof) { Some(r) => eq32(&r, &root), None => false };
    assert!(got == expect);
    replay_candidates(&data, &proof, index, COUNT);
    kani::cover!(got, "an accepting tuple exists");
    kani::cover!(!got, "a rejected tuple exists");
    core::mem::forget(proof);
}
macro_rules! sound {
    ($($name:ident: $c:literal, $l:literal;)*) => { $( h!($name, { sound::<$c, $l>() }); )* };
}
/// (count, len) pairs for which *no* tuple can be accepted: only the rejection cover is demanded.
fn sound_reject<const COUNT: u64, const LEN: usize>() {
    let root: B32 = kani::any();
    let data = Leaf { b: kani::any() };
    let index: u64 = kani::any();
    let mut proof: Vec<B32> = Vec::with_capacity(LEN);
    let mut i = 0;
    while i < LEN { proof.push(kani::any()); i += 1; }
    let got = binary::verify(&root, &data.b, &proof, index, COUNT);
    let expect = index < COUNT
        && match root_from_path(index, COUNT, &h_leaf(&data.b), &proof) { Some(r) => eq32(&r, &root), None => false };
    assert!(got == expect);
    assert!(!got);
    replay_candidates(&data, &proof, index, COUNT);
    kani::cover!(!got, "rejected");
    core::mem::forget(proof);
}
macro_rules! reject {
    ($($name:ident: $c:literal, $l:literal;)*) => { $( h!($name, { sound_reject::<$c, $l>() }); )* };
}
sound! {
    c10_sound_c1_l0: 1, 0;
    c10_sound_c2_l1: 2, 1;
    c10_sound_c3_l1: 3, 1; c10_sound_c3_l2: 3, 2;
    c10_sound_c4_l2: 4, 2;
    c10_sound_c5_l1: 5, 1; c10_sound_c5_l3: 5, 3;
    c10_sound_c6_l2: 6, 2; c10_sound_c6_l3: 6, 3;
    c10_sound_c7_l2: 7, 2; c10_sound_c7_l3: 7, 3;
    c10_sound_c8_l3: 8, 3;
    c10_sound_c9_l1: 9, 1; c10_sound_c9_l4: 9, 4;
    c10_sound_c11_l3: 11, 3; c10_sound_c11_l4: 11, 4;
    c10_sound_c16_l4: 16, 4;
    c10_sound_c17_l1: 17, 1; c10_sound_c17_l5: 17, 5;
}
reject! {
    c10_reject_c0_l0: 0, 0; c10_reject_c0_l1: 0, 1;
    c10_reject_c1_l1: 1, 1;
    c10_reject_c2_l0: 2, 0; c10_reject_c2_l2: 2, 2;
    c10_reject_c3_l0: 3, 0; c10_reject_c3_l3: 3, 3;
    c10_reject_c4_l1: 4, 1; c10_reject_c4_l3: 4, 3;
    c10_reject_c5_l2: 5, 2; c10_reject_c5_l4: 5, 4;
    c10_reject_c7_l1: 7, 1; c10_reject_c7_l4: 7, 4;
    c10_reject_c8_l2: 8, 2; c10_reject_c8_l4: 8, 4;
    c10_reject_c9_l2: 9, 2; c10_reject_c9_l3: 9, 3;
}

/// Completeness: every proof the tree produces verifies against the tree's root with that leaf,
/// index and count; indices at or beyond the count are refused.
fn complete<const N: usize>() {
    let mut l = [Leaf { b: [0; 2] }; N];
    let mut i = 0;
    while i < N { l[i] = Leaf { b: kani::any() }; i += 1; }
    let mut st = ArrStorage::<16>::new();
    let mut t: Tree = MerkleTree::new(StPtr(&mut st as *mut _));
    let mut i = 0;
    while i < N { t.push(&l[i].b).unwrap(); i += 1; }
    let root = t.root();
    let mut i = 0;
    while i < N {
        let (r, proof) = t.prove(i as u64).unwrap();
        assert!(eq32(&r, &root));
        assert!(binary::verify(&root, &l[i].b, &proof, i as u64, N as u64));
        // and it is the RFC 6962 audit path: recomputation reaches the root
        match root_from_path(i as u64, N as u64, &h_leaf(&l[i].b), &proof) { Some(x) => assert!(eq32(&x, &root)), None => assert!(false) }
        core::mem::forget(proof);
        i += 1;
    }
    assert!(t.prove(N as u64).is_err());
    assert!(t.prove(N as u64 + 1).is_err());
    assert!(t.prove(u64::MAX).is_err());
    kani::cover!(true, "all proofs verified");
    core::mem::forget(t);
}
h!(c10_complete_n1, { complete::<1>() });
h!(c10_complete_n2, { complete::<2>() });
h!(c10_complete_n3, { complete::<3>() });
h!(c10_complete_n4, { complete::<4>() });
h!(c10_complete_n5, { complete::<5>() });
h!(c10_complete_n6, { complete::<6>() });
h!(c10_complete_n7, { complete::<7>() });
