//! C07 — DA compression: the registry key kernel (`fuel_compression::RegistryKey`), all 2^24 keys.
use fuel_compression::RegistryKey;

fn any_key() -> (u32, RegistryKey) {
    let raw: u32 = kani::any();
    kani::assume(raw < (1 << 24));
    (raw, RegistryKey::try_from(raw).unwrap())
}

#[kani::proof]
#[kani::unwind(6)]
#[kani::stub(core::result::Result::expect, crate::mk::expect_model)]
#[kani::stub(core::result::Result::unwrap, crate::mk::unwrap_model)]
pub fn c07_key_u32_roundtrip() {
    let raw: u32 = kani::any();
    match RegistryKey::try_from(raw) {
        Ok(k) => {
            assert!(raw < (1 << 24));
            assert!(k.as_u32() == raw);
            // big-endian 3-byte representation
            let b: &[u8] = k.as_ref();
            assert!(b.len() == 3 && b[0] == (raw >> 16) as u8 && b[1] == (raw >> 8) as u8 && b[2] == raw as u8);
            assert!(RegistryKey::try_from(b) == Ok(k));
            kani::cover!(true, "valid key");
        }
        Err(_) => { assert!(raw >= (1 << 24)); kani::cover!(true, "out of range"); }
    }
}

/// next(): total on every writable key, +1 below MAX_WRITABLE, wraps MAX_WRITABLE -> ZERO, never
/// yields the reserved DEFAULT_VALUE, and the orbit of ZERO is the whole writable range (injective).
#[kani::proof]
#[kani::unwind(6)]
#[kani::stub(core::result::Result::expect, crate::mk::expect_model)]
#[kani::stub(core::result::Result::unwrap, crate::mk::unwrap_model)]
pub fn c07_key_next() {
    let (raw, k) = any_key();
    kani::assume(k != RegistryKey::DEFAULT_VALUE);
    let n = k.next();
    assert!(n != RegistryKey::DEFAULT_VALUE);
    if k == RegistryKey::MAX_WRITABLE {
        assert!(raw == (1 << 24) - 2);
        assert!(n == RegistryKey::ZERO);
        kani::cover!(true, "wrap around");
    } else {
        assert!(n.as_u32() == raw + 1);
        kani::cover!(true, "increment");
    }
    assert!(RegistryKey::ZERO.as_u32() == 0 && RegistryKey::DEFAULT_VALUE.as_u32() == (1 << 24) - 1);
}

/// Slices of any other length are refused.
#[kani::proof]
#[kani::unwind(8)]
pub fn c07_key_from_slice_len() {
    let buf: [u8; 5] = kani::any();
    let l: usize = kani::any();
    kani::assume(l <= 5);
    let r = RegistryKey::try_from(&buf[..l]);
    assert!(r.is_ok() == (l == 3));
    if let Ok(k) = r {
        assert!(k.as_u32() == ((buf[0] as u32) << 16 | (buf[1] as u32) << 8 | buf[2] as u32));
        kani::cover!(true, "3-byte slice accepted");
    }
}
