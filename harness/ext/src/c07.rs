//! C07 — DA compression: the registry key kernel (`fuel_compression::RegistryKey`), all 2^24 keys.
use fuel_compression::RegistryKey;

fn any_key() -> (u32, RegistryKey) {
    let raw: u32 = kani::any();
    kani::assume(raw < (1 << 24));
    (raw, RegistryKey::try_from(raw).unwrap())
}

#[kani::proof]
#[kani::unwind(6)]
#[kani::stub(core::result::Result::expect, crate::mk::expect_model)]
#[kani::stub(core::result::Result::unwrap, crate::mk::unwrap_model)]
pub fn c07_key_u32_roundtrip() {
    let raw: u32 = kani::any();
    match RegistryKey::try_from(raw) {
        Ok(k) => {
            assert!(raw < (1 << 24));
            assert!(k.as_u32() == raw);
            // big-endian 3-byte representation
            let b: &[u8] = k.as_ref();
            assert!(b.len() == 3 && b[0] == (raw >> 16) as u8 && b[1] == (raw >> 8) as u8 && b[2] == raw as u8);
            assert!(RegistryKey::try_from(b) == Ok(k));
            kani::cover!(true, "valid key");
        }
        Err(_) => { assert!(raw >= (1 << 24)); kani::cover!(true, "out of range"); }
    }
}

/// next(): total on every writable key, +1 below MAX_WRITABLE, wraps MAX_WRITABLE -> ZERO, never
/// yields the reserved DEFAULT_VALUE, and the orbit of ZERO is the whole writable range (injective).
#[kani::proof]
#[kani::unwind(6)]
#[kani::stub(core::result::Result::expect, crate::mk::expect_model)]
#[kani::stub(core::result::Result::unwrap, crate::mk::unwrap_model)]
pub fn c07_key_next() {
    let (raw, k) = any_key();
    kani::assume(k != RegistryKey::DEFAULT_VALUE);
    let n = k.next();
    assert!(n != RegistryKey::DEFAULT_VALUE);
    if k == RegistryKey::MAX_WRITABLE {
        assert!(raw == (1 << 24) - 2);
        assert!(n == RegistryKey::ZERO);
        kani::cover!(true, "wrap around");
    } else {
        assert!(n.as_u32() == raw + 1);
        kani::cover!(true, "increment");
    }
    assert!(RegistryKey::ZERO.as_u32() == 0 && RegistryKey::DEFAULT_VALUE.as_u32() == (1 << 24) - 1);
}

/// Slices of any other length are refused.
#[kani::proof]
#[kani::unwind(8)]
pub fn c07_key_from_slice_len() {
    let buf: [u8; 5] = kani::any();
    let l: usize = kani::any();
    kani::assume(l <= 5);
    let r = RegistryKey::try_from(&buf[..l]);
    assert!(r.is_ok() == (l == 3));
    if let Ok(k) = r {
        assert!(k.as_u32() == ((buf[0] as u32) << 16 | (buf[1] as u32) << 8 | buf[2] as u32));
        kani::cover!(true, "3-byte slice accepted");
    }
}

// ---------------------------------------------------------------------------------------------
// compress / decompress round trip of the derive-generated and hand-written impls for the types
// that do not need a coin/message lookup: Policies, UpgradePurpose and the five Output variants,
// against an array-backed registry context (keys handed out sequentially; no hashing).
// Specification: every field that is not marked compress(skip) comes back unchanged; skipped
// fields (exactly the malleable ones) come back as their defaults.
// ---------------------------------------------------------------------------------------------
use core::convert::Infallible;
use core::future::Future;
use core::pin::pin;
use core::task::{Context, Poll, RawWaker, RawWakerVTable, Waker};
use fuel_compression::{CompressibleBy, ContextError, DecompressibleBy};
use fuel_tx::{output::Output, policies::{Policies, PolicyType}, UpgradePurpose};
use fuel_types::{Address, AssetId, Bytes32, ContractId};

fn noop_raw() -> RawWaker {
    fn no(_: *const ()) {}
    fn cl(_: *const ()) -> RawWaker { noop_raw() }
    static VT: RawWakerVTable = RawWakerVTable::new(cl, no, no, no);
    RawWaker::new(core::ptr::null(), &VT)
}
/// The derive output never suspends; drive it with a no-op waker (bounded: 4 polls).
fn block_on<F: Future>(f: F) -> F::Output {
    let waker = unsafe { Waker::from_raw(noop_raw()) };
    let mut cx = Context::from_waker(&waker);
    let mut f = pin!(f);
    let mut n = 0;
    loop {
        if let Poll::Ready(v) = f.as_mut().poll(&mut cx) { return v }
        n += 1;
        assert!(n < 4, "compression futures complete without suspending");
    }
}

pub struct Ctx { vals: [[u8; 32]; 4], used: usize }
impl ContextError for Ctx { type Error = Infallible; }
impl Ctx {
    fn new() -> Self { Ctx { vals: [[0; 32]; 4], used: 0 } }
    fn key_for(&mut self, v: &[u8; 32]) -> RegistryKey {
        let mut i = 0;
        while i < self.used { if crate::mk::eq32(&self.vals[i], v) { return RegistryKey::try_from(i as u32).unwrap() } i += 1; }
        assert!(self.used < 4);
        self.vals[self.used] = *v;
        self.used += 1;
        RegistryKey::try_from((self.used - 1) as u32).unwrap()
    }
    fn value_of(&self, k: RegistryKey) -> [u8; 32] { let i = k.as_u32() as usize; assert!(i < self.used); self.vals[i] }
}
macro_rules! registry_type {
    ($t:ty) => {
        impl CompressibleBy<Ctx> for $t {
            async fn compress_with(&self, ctx: &mut Ctx) -> Result<RegistryKey, Infallible> { Ok(ctx.key_for(&**self)) }
        }
        impl DecompressibleBy<Ctx> for $t {
            async fn decompress_with(k: RegistryKey, ctx: &Ctx) -> Result<$t, Infallible> { Ok(<$t>::new(ctx.value_of(k))) }
        }
    };
}
registry_type!(Address);
registry_type!(AssetId);
registry_type!(ContractId);

fn round_trip<T: CompressibleBy<Ctx> + DecompressibleBy<Ctx>>(v: &T) -> T {
    let mut ctx = Ctx::new();
    let c = match block_on(v.compress_with(&mut ctx)) { Ok(c) => c, Err(_) => unreachable!() };
    match block_on(T::decompress_with(c, &ctx)) { Ok(v) => v, Err(_) => unreachable!() }
}

macro_rules! ch {
    ($name:ident, $body:block) => {
        #[kani::proof] #[kani::unwind(8)]
        #[kani::stub(core::result::Result::expect, crate::mk::expect_model)]
        #[kani::stub(core::result::Result::unwrap, crate::mk::unwrap_model)]
        pub fn $name() $body
    };
}
fn b32() -> [u8; 32] { kani::any() }

fn policies(mask: u8) -> Policies {
    let mut p = Policies::new();
    if mask & 1 != 0 { p.set(PolicyType::Tip, Some(kani::any())); }
    if mask & 2 != 0 { p.set(PolicyType::WitnessLimit, Some(kani::any())); }
    if mask & 4 != 0 { p.set(PolicyType::Maturity, Some(kani::any::<u32>() as u64)); }
    if mask & 8 != 0 { p.set(PolicyType::MaxFee, Some(kani::any())); }
    if mask & 16 != 0 { p.set(PolicyType::Expiration, Some(kani::any::<u32>() as u64)); }
    if mask & 32 != 0 { p.set(PolicyType::Owner, Some(kani::any())); }
    p
}
ch!(c07_rt_policies, {
    let mask: u8 = kani::any();
    kani::assume(mask < 64);
    let p = policies(mask);
    let q = round_trip(&p);
    assert!(p == q && p.bits() == q.bits(), "policies (part of the id) survive compression unchanged");
    kani::cover!(p.get(PolicyType::Tip) == Some(0), "explicit zero tip");
});
ch!(c07_rt_upgrade_purpose, {
    let p = if kani::any() { UpgradePurpose::ConsensusParameters { witness_index: kani::any(), checksum: Bytes32::new(b32()) } }
            else { UpgradePurpose::StateTransition { root: Bytes32::new(b32()) } };
    let q = round_trip(&p);
    assert!(p == q, "the upgrade purpose (part of the id) survives compression unchanged");
    kani::cover!(matches!(p, UpgradePurpose::ConsensusParameters { witness_index, .. } if witness_index != 0), "non-zero witness index");
});
ch!(c07_rt_output_coin, {
    let o = Output::coin(Address::new(b32()), kani::any(), AssetId::new(b32()));
    assert!(round_trip(&o) == o);
    kani::cover!(true, "coin output");
});
ch!(c07_rt_output_change, {
    let (to, a) = (Address::new(b32()), AssetId::new(b32()));
    let o = Output::change(to, kani::any(), a);
    assert!(round_trip(&o) == Output::change(to, 0, a), "only the malleable amount is dropped");
    kani::cover!(true, "change output");
});
ch!(c07_rt_output_variable, {
    let o = Output::variable(Address::new(b32()), kani::any(), AssetId::new(b32()));
    assert!(round_trip(&o) == Output::variable(Address::zeroed(), 0, AssetId::zeroed()));
    kani::cover!(true, "variable output");
});
ch!(c07_rt_output_contract, {
    let i: u16 = kani::any();
    let o = Output::contract(i, Bytes32::new(b32()), Bytes32::new(b32()));
    assert!(round_trip(&o) == Output::contract(i, Bytes32::zeroed(), Bytes32::zeroed()));
    kani::cover!(true, "contract output");
});
ch!(c07_rt_output_contract_created, {
    let o = Output::contract_created(ContractId::new(b32()), Bytes32::new(b32()));
    assert!(round_trip(&o) == o);
    kani::cover!(true, "contract created output");
});
