//! C18 — fee and refund arithmetic is monotone and bounded by the fee limit.
use fuel_tx::{field::*, policies::{Policies, PolicyType}, Chargeable, FeeParameters, GasCosts, Script, Transaction, TransactionFee};
use fuel_types::canonical::Serialize;

type Word = u64;

/// A real `Script` without inputs/outputs/witnesses; tip, witness limit and max fee symbolic.
/// (Signed inputs would reach the HashSet witness-dedup set, K5: per-unique-witness charging is out.)
fn any_script() -> Script {
    let mut p = Policies::new();
    if kani::any() { p = p.with_tip(kani::any()); }
    if kani::any() { p = p.with_witness_limit(kani::any()); }
    p = p.with_max_fee(kani::any());
    Transaction::script(kani::any(), vec![], vec![], p, vec![], vec![], vec![])
}
/// Fee parameters with the given (concrete) price factor and the default gas_per_byte.  The gas
/// amounts still range widely: max_gas through the symbolic witness limit, the refund base through
/// the symbolic used gas.  (A symbolic gas_per_byte adds a second 64x64 multiplier level in front of
/// gas*price and the fee harnesses no longer finish.)
fn fee_params(factor: u64) -> FeeParameters {
    FeeParameters::DEFAULT.with_gas_price_factor(factor)
}

/// q == ceil(n / f) in witness form (f >= 1): q*f >= n > (q-1)*f, with q == 0 iff n == 0
fn is_ceil_div(q: u128, n: u128, f: u128) -> bool {
    if n == 0 { return q == 0 }
    if q == 0 { return false }
    match (q.checked_mul(f), (q - 1).checked_mul(f)) {
        (Some(hi), Some(lo)) => hi >= n && lo < n,
        // q*f overflows u128: then (q-1)*f must still be below n
        (None, Some(lo)) => lo < n,
        _ => false,
    }
}

macro_rules! h {
    ($name:ident, $body:block) => {
        #[kani::proof] #[kani::unwind(20)]
        #[kani::stub(core::result::Result::expect, crate::mk::expect_model)]
        #[kani::stub(core::result::Result::unwrap, crate::mk::unwrap_model)]
        pub fn $name() $body
    };
}

/// which: 0 = min fee formula, 1 = max fee formula, 2 = order + checked_from_tx
fn fees_equal_formula(factor: u64, which: u8) {
    let tx = any_script();
    let gc = GasCosts::default();
    let fp = fee_params(factor);
    let price: Word = kani::any();
    let tip = tx.tip() as u128;
    match which {
        0 => {
            let min_gas = tx.min_gas(&gc, &fp);
            let min_fee = tx.min_fee(&gc, &fp, price);
            // fee == ceil(gas * price / factor) + tip   (the sum cannot overflow u128)
            assert!(min_fee >= tip && is_ceil_div(min_fee - tip, min_gas as u128 * price as u128, factor as u128));
            kani::cover!(min_fee > tip, "non-zero gas fee");
        }
        1 => {
            let max_gas = tx.max_gas(&gc, &fp);
            let max_fee = tx.max_fee(&gc, &fp, price);
            assert!(max_fee >= tip && is_ceil_div(max_fee - tip, max_gas as u128 * price as u128, factor as u128));
            kani::cover!(max_fee > tip, "non-zero gas fee");
        }
        _ => {
            kani::assume(price < (1 << 12)); // monotonicity of gas -> gas*price (bounded)
            let (min_gas, max_gas) = (tx.min_gas(&gc, &fp), tx.max_gas(&gc, &fp));
            assert!(min_gas <= max_gas);
            let (min_fee, max_fee) = (tx.min_fee(&gc, &fp, price), tx.max_fee(&gc, &fp, price));
            assert!(min_fee <= max_fee);
            // checked_from_tx: None instead of a panic when a fee does not fit u64.  (Its fee values are
            // not compared with a second evaluation of min_fee/max_fee: two evaluations contain two
            // independent dividers, which CBMC never unifies.)
            match TransactionFee::checked_from_tx(&gc, &fp, &tx, price) {
                Some(f) => { assert!(f.min_fee() <= f.max_fee() && f.min_gas() == min_gas && f.max_gas() == max_gas); kani::cover!(true, "fees fit u64"); }
                None => { kani::cover!(true, "fee overflow reported as None"); }
            }
            kani::cover!(min_gas < max_gas, "witness limit adds gas");
        }
    }
    core::mem::forget(tx);
}
h!(c18_min_fee_factor_1, { fees_equal_formula(1, 0) });
h!(c18_min_fee_factor_default, { fees_equal_formula(1_000_000_000, 0) });
h!(c18_min_fee_factor_big, { fees_equal_formula((1u64 << 40) + 12345, 0) });
h!(c18_max_fee_factor_1, { fees_equal_formula(1, 1) });
h!(c18_max_fee_factor_default, { fees_equal_formula(1_000_000_000, 1) });
h!(c18_order_factor_1, { fees_equal_formula(1, 2) });
h!(c18_order_factor_default, { fees_equal_formula(1_000_000_000, 2) });

/// Value-range bound used where the full 64-bit statement needs multiplier reasoning the SAT solver
/// does not finish (monotonicity of x -> ceil(x*p/f), division by the default factor).
fn bounded(price: Word, gas_like: Word) { kani::assume(price < (1 << 20) && gas_like < (1 << 32)); }

fn refund_formula(factor: u64) { refund_formula_b(factor, false) }
fn refund_formula_b(factor: u64, bound: bool) {
    let tx = any_script();
    let gc = GasCosts::default();
    let fp = fee_params(factor);
    let (price, used): (Word, Word) = (kani::any(), kani::any());
    if bound { bounded(price, used); }
    let min_gas = tx.min_gas(&gc, &fp);
    let tip = tx.tip() as u128;
    let limit = tx.max_fee_limit();
    let r = tx.refund_fee(&gc, &fp, used, price);
    // used_fee = ceil((min_gas sat+ used) * price / factor) + tip, in wide arithmetic
    let total = min_gas.saturating_add(used) as u128 * price as u128;
    match r {
        Some(refund) => {
            assert!(refund <= limit);
            let used_fee = (limit - refund) as u128;
            assert!(used_fee >= tip && is_ceil_div(used_fee - tip, total, factor as u128));
            kani::cover!(refund > 0, "positive refund");
        }
        None => {
            // no refund exactly when the used fee exceeds the limit (or does not fit u64): i.e. for
            // every candidate fee f <= limit, f is NOT the ceiling (checked at f = limit: the true
            // ceiling is larger than limit - tip)
            if limit as u128 >= tip {
                let cand = limit as u128 - tip;
                // true ceiling > cand  <=>  cand * factor < total
                match cand.checked_mul(factor as u128) { Some(x) => assert!(x < total), None => assert!(false) }
            }
            kani::cover!(true, "used fee exceeds the limit");
        }
    }
    core::mem::forget(tx);
}
h!(c18_refund_factor_1, { refund_formula(1) });
h!(c18_refund_factor_default, { refund_formula(1_000_000_000) });
h!(c18_refund_factor_default_bounded, { refund_formula_b(1_000_000_000, true) });
h!(c18_refund_factor_7_bounded, { refund_formula_b(7, true) });

fn refund_monotone(factor: u64) { refund_monotone_b(factor, false) }
fn refund_monotone_b(factor: u64, bound: bool) {
    let tx = any_script();
    let gc = GasCosts::default();
    let fp = fee_params(factor);
    let (price, u1, u2): (Word, Word, Word) = (kani::any(), kani::any(), kani::any());
    kani::assume(u1 <= u2);
    if bound { kani::assume(price < (1 << 12) && u2 < (1 << 20)); }
    let (r1, r2) = (tx.refund_fee(&gc, &fp, u1, price), tx.refund_fee(&gc, &fp, u2, price));
    match (r1, r2) {
        (Some(a), Some(b)) => { assert!(a >= b); kani::cover!(a > b, "strictly smaller refund for more gas"); }
        (None, Some(_)) => assert!(false, "refund for more gas but none for less"),
        _ => {}
    }
    core::mem::forget(tx);
}
h!(c18_refund_monotone_factor_1, { refund_monotone(1) });
h!(c18_refund_monotone_factor_default, { refund_monotone(1_000_000_000) });
h!(c18_refund_monotone_factor_1_bounded, { refund_monotone_b(1, true) });
h!(c18_refund_monotone_factor_7_bounded, { refund_monotone_b(7, true) });

// ---- ordering for the other chargeable kinds (they override min_gas / gas_used_by_metadata) -----
use fuel_tx::{Blob, BlobBody, Create, Upload, UploadBody, Witness};
use fuel_types::{BlobId, Bytes32, Salt};

fn any_policies() -> Policies {
    let mut p = Policies::new();
    if kani::any() { p = p.with_tip(kani::any()); }
    if kani::any() { p = p.with_witness_limit(kani::any()); }
    p.with_max_fee(kani::any())
}
fn order<T: Chargeable>(tx: &T, factor: u64) {
    let gc = GasCosts::default();
    let fp = fee_params(factor);
    let price: Word = kani::any();
    // min_fee <= max_fee is monotonicity of gas -> gas*price: decided for price < 2^12
    kani::assume(price < (1 << 12));
    let (min_gas, max_gas) = (tx.min_gas(&gc, &fp), tx.max_gas(&gc, &fp));
    assert!(min_gas <= max_gas, "minimum gas never exceeds maximum gas");
    let (min_fee, max_fee) = (tx.min_fee(&gc, &fp, price), tx.max_fee(&gc, &fp, price));
    assert!(min_fee <= max_fee, "minimum fee never exceeds maximum fee");
    if let Some(f) = TransactionFee::checked_from_tx(&gc, &fp, tx, price) { assert!(f.min_fee() <= f.max_fee() && f.min_gas() <= f.max_gas()); kani::cover!(true, "fees computed"); }
    kani::cover!(min_gas < max_gas, "witness limit adds gas");
}
fn witness16() -> Witness { Witness::from(vec![kani::any::<u8>(); 16]) }
h!(c18_order_upload, {
    let body = UploadBody { root: Bytes32::zeroed(), witness_index: 0, subsection_index: 0, subsections_number: 1, proof_set: vec![] };
    let tx: Upload = Transaction::upload(body, any_policies(), vec![], vec![], vec![witness16()]);
    order(&tx, 1);
    core::mem::forget(tx);
});
h!(c18_order_blob, {
    let body = BlobBody { id: BlobId::zeroed(), witness_index: 0 };
    let tx: Blob = Transaction::blob(body, any_policies(), vec![], vec![], vec![witness16()]);
    order(&tx, 1);
    core::mem::forget(tx);
});
h!(c18_order_create, {
    let tx: Create = Transaction::create(0, any_policies(), Salt::zeroed(), vec![], vec![], vec![], vec![witness16()]);
    order(&tx, 1);
    core::mem::forget(tx);
});
