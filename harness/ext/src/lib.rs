//! External Kani harness crate: reaches /repo only through its public API.
#![allow(clippy::all, dead_code, unused_imports, unused_variables, unused_mut)]

include!("build_stamp.rs");

pub mod gen_c08;
#[cfg(kani)]
pub mod c08;
#[cfg(kani)]
pub mod mk;
#[cfg(kani)]
pub mod c11;
#[cfg(kani)]
pub mod c09;
#[cfg(kani)]
pub mod c10;
#[cfg(kani)]
pub mod c02;
#[cfg(kani)]
pub mod c01;
#[cfg(kani)]
pub mod c14;
#[cfg(kani)]
pub mod c18;
#[cfg(kani)]
pub mod c28;
#[cfg(kani)]
pub mod c15;
#[cfg(kani)]
pub mod c03;
#[cfg(kani)]
pub mod c04;
#[cfg(kani)]
pub mod c07;
#[cfg(kani)]
pub mod c06;

/// Counterexample replay (see lib/replay.py): the generated concrete-playback tests.
#[cfg(all(kani, verif_playback))]
mod verif_playback {
    include!(env!("VERIF_PLAYBACK_FILE"));
}
