//! C02 — decoding arbitrary bytes never panics and reaches a fixed point.
use fuel_tx::{field::*, input::Input, output::Output, policies::Policies, Receipt, StorageSlot, Transaction, TxPointer, UtxoId, Witness};
use fuel_types::canonical::{Deserialize, Serialize};

/// Arbitrary buffer of at most N bytes (content and length symbolic); decode; on success the
/// reported size equals the bytes consumed.  Kani's default checks give "never panics".
fn no_panic_and_size<T: Deserialize + Serialize, const N: usize>() -> Option<(T, usize)> {
    let buf: [u8; N] = kani::any();
    let len: usize = kani::any();
    kani::assume(len <= N);
    let mut s: &[u8] = &buf[..len];
    match T::decode(&mut s) {
        Ok(v) => {
            let consumed = len - s.len();
            assert!(v.size() == consumed);
            assert!(v.size_static() + v.size_dynamic() == consumed);
            assert!(consumed % 8 == 0);
            kani::cover!(true, "decoded a value");
            Some((v, consumed))
        }
        Err(_) => { kani::cover!(true, "rejected"); None }
    }
}
/// ... and encoding the value then decoding it again yields the same value, of the same length.
fn fixed_point<T: Deserialize + Serialize + PartialEq, const N: usize>() {
    if let Some((v, consumed)) = no_panic_and_size::<T, N>() {
        let b = v.to_bytes();
        assert!(b.len() == consumed);
        match T::from_bytes(&b) {
            Ok(v2) => { assert!(v2 == v); kani::cover!(true, "fixed point reached"); core::mem::forget(v2); }
            Err(_) => assert!(false, "re-decoding the re-encoded value failed"),
        }
        core::mem::forget(b);
        core::mem::forget(v);
    }
}

macro_rules! h {
    ($name:ident, $unw:literal, $body:expr) => {
        #[kani::proof] #[kani::unwind($unw)]
        #[kani::stub(core::result::Result::expect, crate::mk::expect_model)]
        #[kani::stub(core::result::Result::unwrap, crate::mk::unwrap_model)]
        pub fn $name() { $body; }
    };
}
h!(c02_utxo_id, 50, fixed_point::<UtxoId, 48>());
h!(c02_tx_pointer, 30, fixed_point::<TxPointer, 24>());
h!(c02_policies_size, 20, { let r = no_panic_and_size::<Policies, 64>(); core::mem::forget(r) });
h!(c02_policies_fixed_point, 20, fixed_point::<Policies, 64>());
h!(c02_storage_slot, 80, fixed_point::<StorageSlot, 72>());
h!(c02_witness_size, 30, { let r = no_panic_and_size::<Witness, 24>(); core::mem::forget(r) });
h!(c02_witness_fixed_point, 30, fixed_point::<Witness, 24>());
h!(c02_output_size, 20, { let r = no_panic_and_size::<Output, 112>(); core::mem::forget(r) });
h!(c02_output_fixed_point, 120, fixed_point::<Output, 112>());
h!(c02_input_size, 30, { let r = no_panic_and_size::<Input, 232>(); core::mem::forget(r) });
h!(c02_receipt_size, 30, { let r = no_panic_and_size::<Receipt, 200>(); core::mem::forget(r) });
h!(c02_transaction_size, 30, { let r = no_panic_and_size::<Transaction, 160>(); core::mem::forget(r) });
