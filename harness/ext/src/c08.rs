//! C08 — instruction encoding is a bijection on valid 32-bit words.
use crate::gen_c08::*;
use fuel_asm::{Instruction, Opcode};

fn reserved_mask(l: L) -> u32 {
    match l {
        L::N => 0x00ff_ffff,
        L::R => 0x0003_ffff,
        L::RR => 0x0000_0fff,
        L::RRR => 0x0000_003f,
        L::RRRR | L::RRRI06 | L::RRI12 | L::RI18 | L::I24 => 0,
    }
}

fn n_regs(l: L) -> usize {
    match l {
        L::N | L::I24 => 0,
        L::R | L::RI18 => 1,
        L::RR | L::RRI12 => 2,
        L::RRR | L::RRRI06 => 3,
        L::RRRR => 4,
    }
}

/// A: decode succeeds exactly on (defined opcode, reserved bits zero); re-encode is identity.
#[kani::proof]
pub fn c08_decode_iff_and_reencode() {
    let w: u32 = kani::any();
    let opb = (w >> 24) as u8;
    let r = Instruction::try_from(w);
    let expect_ok = match spec_layout(opb) {
        Some(l) => w & reserved_mask(l) == 0,
        None => false,
    };
    assert!(r.is_ok() == expect_ok);
    if let Ok(i) = r {
        assert!(u32::from(i) == w);
        kani::cover!(true, "decoded");
    } else {
        kani::cover!(spec_layout(opb).is_some(), "defined opcode with nonzero reserved bits rejected");
        kani::cover!(spec_layout(opb).is_none(), "undefined opcode rejected");
    }
}

/// A1b: the opcode accessor and the byte-array conversions agree with the word.
#[kani::proof]
pub fn c08_decode_opcode_and_bytes() {
    let w: u32 = kani::any();
    let opb = (w >> 24) as u8;
    if let Ok(i) = Instruction::try_from(w) {
        assert!(i.opcode() as u8 == opb);
        let bytes: [u8; 4] = i.into();
        assert!(bytes == w.to_be_bytes());
        kani::cover!(true, "decoded");
    }
}

/// A1c: the byte-array entry point accepts exactly the same words and yields the same encoding.
#[kani::proof]
pub fn c08_decode_bytes_entry() {
    let w: u32 = kani::any();
    let a = Instruction::try_from(w);
    let b = Instruction::try_from(w.to_be_bytes());
    assert!(a.is_ok() == b.is_ok());
    if let (Ok(x), Ok(y)) = (a, b) {
        assert!(u32::from(x) == u32::from(y));
        kani::cover!(true, "both decode");
    }
}

/// A1d: Opcode::try_from(u8) is defined exactly on the specification's opcode bytes.
#[kani::proof]
pub fn c08_opcode_byte() {
    let opb: u8 = kani::any();
    let r = Opcode::try_from(opb);
    assert!(r.is_ok() == spec_layout(opb).is_some());
    if let Ok(o) = r {
        assert!(o as u8 == opb);
        kani::cover!(true, "defined");
    }
    kani::cover!(r.is_err(), "undefined");
}

/// A2: typed accessors and reg_ids equal the bit slices of the word.
#[kani::proof]
pub fn c08_decode_fields() {
    let w: u32 = kani::any();
    if let Ok(i) = Instruction::try_from(w) {
        assert!(unpack_matches(i, w));
        let l = match spec_layout((w >> 24) as u8) { Some(l) => l, None => { assert!(false); return } };
        let ids = i.reg_ids();
        let slices = [((w >> 18) & 0x3f) as u8, ((w >> 12) & 0x3f) as u8, ((w >> 6) & 0x3f) as u8, (w & 0x3f) as u8];
        let n = n_regs(l);
        let mut k = 0;
        while k < 4 {
            match ids[k] {
                Some(r) => assert!(k < n && r.to_u8() == slices[k]),
                None => assert!(k >= n),
            }
            k += 1;
        }
        kani::cover!(n == 4, "four-register instruction");
        kani::cover!(n == 0, "no-register instruction");
    }
}

macro_rules! encode_harness {
    ($name:ident, $ctor:ident, $lay:expr) => {
        /// B: constructed instruction decodes to the same opcode and arguments.
        #[kani::proof]
        pub fn $name() {
            let opb: u8 = kani::any();
            let (a, b, c, d): (u8, u8, u8, u8) = (kani::any(), kani::any(), kani::any(), kani::any());
            let (i12, i18, i24): (u16, u32, u32) = (kani::any(), kani::any(), kani::any());
            kani::assume(a < 64 && b < 64 && c < 64 && d < 64);
            kani::assume(i12 < (1 << 12) && i18 < (1 << 18) && i24 < (1 << 24));
            kani::assume(spec_layout(opb) == Some($lay));
            let i = match $ctor(opb, a, b, c, d, i12, i18, i24) {
                Some(i) => i,
                None => { assert!(false, "spec opcode of this layout has no constructor"); return }
            };
            let w = u32::from(i);
            assert!((w >> 24) as u8 == opb);
            let expect: u32 = ((opb as u32) << 24) | match $lay {
                L::N => 0,
                L::R => (a as u32) << 18,
                L::RR => (a as u32) << 18 | (b as u32) << 12,
                L::RRR => (a as u32) << 18 | (b as u32) << 12 | (c as u32) << 6,
                L::RRRR | L::RRRI06 => (a as u32) << 18 | (b as u32) << 12 | (c as u32) << 6 | d as u32,
                L::RRI12 => (a as u32) << 18 | (b as u32) << 12 | i12 as u32,
                L::RI18 => (a as u32) << 18 | i18,
                L::I24 => i24,
            };
            assert!(w == expect);
            let back = Instruction::try_from(w);
            assert!(back == Ok(i));
            assert!(i.opcode() as u8 == opb);
            assert!(unpack_matches(i, expect));
            kani::cover!(true, "constructed and decoded");
        }
    };
}
encode_harness!(c08_encode_n, construct_n, L::N);
encode_harness!(c08_encode_r, construct_r, L::R);
encode_harness!(c08_encode_rr, construct_rr, L::RR);
encode_harness!(c08_encode_rrr, construct_rrr, L::RRR);
encode_harness!(c08_encode_rrrr, construct_rrrr, L::RRRR);
encode_harness!(c08_encode_rrri06, construct_rrri06, L::RRRI06);
encode_harness!(c08_encode_rri12, construct_rri12, L::RRI12);
encode_harness!(c08_encode_ri18, construct_ri18, L::RI18);
encode_harness!(c08_encode_i24, construct_i24, L::I24);

/// B2: checked constructors of argument types accept exactly the in-range values; `new` masks.
#[kani::proof]
pub fn c08_arg_types() {
    use fuel_asm::{Imm06, Imm12, Imm18, Imm24, RegId};
    let x8: u8 = kani::any();
    let x16: u16 = kani::any();
    let x32: u32 = kani::any();
    assert!(RegId::new_checked(x8).map(|r| r.to_u8()) == if x8 < 64 { Some(x8) } else { None });
    assert!(Imm06::new_checked(x8).map(|r| r.to_u8()) == if x8 < 64 { Some(x8) } else { None });
    assert!(Imm12::new_checked(x16).map(|r| r.to_u16()) == if x16 < 4096 { Some(x16) } else { None });
    assert!(Imm18::new_checked(x32).map(|r| r.to_u32()) == if x32 < (1 << 18) { Some(x32) } else { None });
    assert!(Imm24::new_checked(x32).map(|r| r.to_u32()) == if x32 < (1 << 24) { Some(x32) } else { None });
    assert!(RegId::new(x8).to_u8() == x8 & 0x3f);
    assert!(Imm06::new(x8).to_u8() == x8 & 0x3f);
    assert!(Imm12::new(x16).to_u16() == x16 & 0xfff);
    assert!(Imm18::new(x32).to_u32() == x32 & 0x3ffff);
    assert!(Imm24::new(x32).to_u32() == x32 & 0xffffff);
    kani::cover!(x32 >= (1 << 24), "out of range imm");
}

/// C: the interpreter's per-opcode parser agrees with the general decoder.
#[kani::proof]
pub fn c08_from_raw_args_agrees() {
    let opb: u8 = kani::any();
    let args: [u8; 3] = kani::any();
    let general = Instruction::try_from([opb, args[0], args[1], args[2]]);
    match from_raw_args_payload(opb, args) {
        None => assert!(general.is_err()),
        Some(Err(())) => {
            assert!(general.is_err());
            kani::cover!(true, "parser rejects reserved bits");
        }
        Some(Ok(payload)) => {
            match general {
                Ok(i) => {
                    let bytes: [u8; 4] = i.into();
                    assert!(bytes[0] == opb && [bytes[1], bytes[2], bytes[3]] == payload);
                    assert!(payload == args);
                    kani::cover!(true, "parser accepts");
                }
                Err(_) => assert!(false),
            }
        }
    }
}
