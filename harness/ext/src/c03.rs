//! C03 — the transaction id commits to exactly the non-malleable content.
//!
//! Element layer: for every input / output variant, `prepare_sign` maps a value with arbitrary
//! malleable fields to the value with those fields at their defaults and every other field intact
//! (so: malleable fields never matter, every other field always does).
//! Transaction layer: `tx.id(chain)` hashes exactly `chain_id_be ‖ canonical bytes of the
//! prepared transaction without witnesses` (pre-image recorded by a logging stand-in for
//! `fuel_crypto::Hasher`), and the cached id equals the fresh one.
use fuel_tx::{
    field::{ReceiptsRoot, Witnesses, Inputs, Outputs},
    input::Input, output::Output, policies::Policies, Cacheable, Script, Transaction, TxPointer, UniqueIdentifier, UtxoId, Witness,
    PrepareSign,
};
use fuel_types::{canonical::Serialize, Address, AssetId, BlockHeight, Bytes32, ChainId, ContractId, Nonce};

fn b32() -> [u8; 32] { kani::any() }
fn addr() -> Address { Address::from(b32()) }
fn asset() -> AssetId { AssetId::from(b32()) }
fn utxo() -> UtxoId { UtxoId::new(Bytes32::from(b32()), kani::any()) }
fn txp() -> TxPointer { TxPointer::new(BlockHeight::from(kani::any::<u32>()), kani::any()) }
fn bytes<const L: usize>() -> Vec<u8> {
    let mut v = Vec::with_capacity(L);
    let mut i = 0;
    while i < L { v.push(kani::any()); i += 1; }
    v
}

macro_rules! h {
    ($name:ident, $unw:literal, $body:expr) => {
        #[kani::proof] #[kani::unwind($unw)]
        #[kani::stub(core::result::Result::expect, crate::mk::expect_model)]
        #[kani::stub(core::result::Result::unwrap, crate::mk::unwrap_model)]
        pub fn $name() { $body; }
    };
}

/// `v` carries arbitrary malleable fields, `expected` the same non-malleable fields and defaults
/// in the malleable positions.  (PartialEq on Input/Output compares every field.)
fn prepared_input(mut v: Input, expected: Input) {
    v.prepare_sign();
    assert!(v == expected);
    kani::cover!(true, "input prepared");
    core::mem::forget(v);
    core::mem::forget(expected);
}
fn prepared_output(mut v: Output, expected: Output) {
    v.prepare_sign();
    assert!(v == expected);
    kani::cover!(true, "output prepared");
}

h!(c03_el_coin_signed, 40, {
    let (u, o, am, a, w) = (utxo(), addr(), kani::any(), asset(), kani::any());
    prepared_input(Input::coin_signed(u, o, am, a, txp(), w), Input::coin_signed(u, o, am, a, TxPointer::default(), w))
});
h!(c03_el_coin_predicate, 40, {
    let (u, o, am, a) = (utxo(), addr(), kani::any(), asset());
    let (p, d) = (bytes::<3>(), bytes::<2>());
    prepared_input(Input::coin_predicate(u, o, am, a, txp(), kani::any(), p.clone(), d.clone()),
                   Input::coin_predicate(u, o, am, a, TxPointer::default(), 0, p, d))
});
h!(c03_el_contract, 40, {
    let c = ContractId::from(b32());
    prepared_input(Input::contract(utxo(), Bytes32::from(b32()), Bytes32::from(b32()), txp(), c),
                   Input::contract(UtxoId::default(), Bytes32::zeroed(), Bytes32::zeroed(), TxPointer::default(), c))
});
h!(c03_el_message_coin_signed, 40, {
    let (s, r, am, n, w) = (addr(), addr(), kani::any(), Nonce::from(b32()), kani::any());
    prepared_input(Input::message_coin_signed(s, r, am, n, w), Input::message_coin_signed(s, r, am, n, w))
});
h!(c03_el_message_coin_predicate, 40, {
    let (s, r, am, n) = (addr(), addr(), kani::any(), Nonce::from(b32()));
    let (p, d) = (bytes::<2>(), bytes::<1>());
    prepared_input(Input::message_coin_predicate(s, r, am, n, kani::any(), p.clone(), d.clone()),
                   Input::message_coin_predicate(s, r, am, n, 0, p, d))
});
h!(c03_el_message_data_signed, 40, {
    let (s, r, am, n, w) = (addr(), addr(), kani::any(), Nonce::from(b32()), kani::any());
    let d = bytes::<3>();
    prepared_input(Input::message_data_signed(s, r, am, n, w, d.clone()), Input::message_data_signed(s, r, am, n, w, d))
});
h!(c03_el_message_data_predicate, 40, {
    let (s, r, am, n) = (addr(), addr(), kani::any(), Nonce::from(b32()));
    let (dd, p, d) = (bytes::<2>(), bytes::<2>(), bytes::<1>());
    prepared_input(Input::message_data_predicate(s, r, am, n, kani::any(), dd.clone(), p.clone(), d.clone()),
                   Input::message_data_predicate(s, r, am, n, 0, dd, p, d))
});
h!(c03_el_output_coin, 40, {
    let (t, am, a) = (addr(), kani::any(), asset());
    prepared_output(Output::coin(t, am, a), Output::coin(t, am, a))
});
h!(c03_el_output_contract, 40, {
    let i: u16 = kani::any();
    prepared_output(Output::contract(i, Bytes32::from(b32()), Bytes32::from(b32())), Output::contract(i, Bytes32::zeroed(), Bytes32::zeroed()))
});
h!(c03_el_output_change, 40, {
    let (t, a) = (addr(), asset());
    prepared_output(Output::change(t, kani::any(), a), Output::change(t, 0, a))
});
h!(c03_el_output_variable, 40, {
    prepared_output(Output::variable(addr(), kani::any(), asset()), Output::variable(Address::zeroed(), 0, AssetId::zeroed()))
});
h!(c03_el_output_contract_created, 40, {
    let (c, s) = (ContractId::from(b32()), Bytes32::from(b32()));
    prepared_output(Output::contract_created(c, s), Output::contract_created(c, s))
});

// ---------------------------------------------------------------------------------------------
// Transaction layer.  `fuel_crypto::Hasher` is replaced (Kani only) by a logging stand-in: `input`
// appends to a global byte log, `finalize` returns a cheap digest of the log.  The obligation is on
// the PRE-IMAGE: what `id()` fed to the hasher is chain_id_be ‖ bytes(expected), where `expected`
// is built by the harness through the public constructors (no prepare_sign involved).
// ---------------------------------------------------------------------------------------------
pub const LOG_CAP: usize = 1024;
pub static mut LOG: [u8; LOG_CAP] = [0; LOG_CAP];
pub static mut LOG_LEN: usize = 0;

pub fn hasher_input_model<B: AsRef<[u8]>>(_h: &mut fuel_crypto::Hasher, data: B) {
    let d = data.as_ref();
    unsafe {
        let l = LOG_LEN;
        assert!(l + d.len() <= LOG_CAP, "hash log capacity");
        LOG[l..l + d.len()].copy_from_slice(d);
        LOG_LEN = l + d.len();
    }
}
pub fn toy_digest(d: &[u8]) -> Bytes32 { Bytes32::from(crate::mk::toy_leaf(d)) }
pub fn hasher_finalize_model(_h: fuel_crypto::Hasher) -> Bytes32 {
    unsafe { toy_digest(&LOG[..LOG_LEN]) }
}

/// The id obligation.  Under Kani: compare the logged pre-image.  In a native replay the stubs are
/// inert, so compare against real SHA-256 of the expected pre-image.
#[cfg(not(verif_playback))]
fn check_id(id: Bytes32, chain: ChainId, expected_bytes: &[u8]) {
    let c = u64::from(chain).to_be_bytes();
    unsafe {
        assert!(LOG_LEN == 8 + expected_bytes.len(), "pre-image length");
        assert!(LOG[..8] == c[..], "pre-image starts with the big-endian chain id");
        assert!(LOG[8..LOG_LEN] == *expected_bytes, "pre-image = canonical bytes of the prepared tx without witnesses");
        assert!(id == toy_digest(&LOG[..LOG_LEN]));
    }
}
#[cfg(verif_playback)]
fn check_id(id: Bytes32, chain: ChainId, expected_bytes: &[u8]) {
    use sha2::Digest;
    let mut h = sha2::Sha256::new();
    h.update(u64::from(chain).to_be_bytes());
    h.update(expected_bytes);
    let d: [u8; 32] = h.finalize().into();
    assert!(*id == d, "id == SHA-256(chain_id_be ‖ prepared bytes)");
}

macro_rules! txh {
    ($name:ident, $unw:literal, $body:expr) => {
        #[kani::proof] #[kani::unwind($unw)]
        #[kani::stub(core::result::Result::expect, crate::mk::expect_model)]
        #[kani::stub(core::result::Result::unwrap, crate::mk::unwrap_model)]
        #[kani::stub(fuel_crypto::Hasher::input, hasher_input_model)]
        #[kani::stub(fuel_crypto::Hasher::finalize, hasher_finalize_model)]
        pub fn $name() { $body; }
    };
}

fn any_policies_tip_maxfee() -> Policies {
    use fuel_tx::policies::PolicyType;
    let mut p = Policies::new();
    p.set(PolicyType::Tip, Some(kani::any()));
    p.set(PolicyType::MaxFee, Some(kani::any()));
    p
}

/// Script with the given (inputs, outputs) pairs: `actual` carries arbitrary malleable fields and
/// `NW` witnesses, `expected` defaults and no witnesses.
fn script_id_case<const NW: usize>(ins: Vec<(Input, Input)>, outs: Vec<(Output, Output)>, cached: bool) {
    let gas: u64 = kani::any();
    let script = bytes::<4>();
    let data = bytes::<1>();
    let pol = any_policies_tip_maxfee();
    let chain = ChainId::new(kani::any());
    let mut wits = Vec::with_capacity(NW);
    let mut i = 0;
    while i < NW { wits.push(Witness::from(bytes::<2>())); i += 1; }
    let (mut ia, mut ie) = (Vec::new(), Vec::new());
    for (a, e) in ins { ia.push(a); ie.push(e); }
    let (mut oa, mut oe) = (Vec::new(), Vec::new());
    for (a, e) in outs { oa.push(a); oe.push(e); }
    let mut actual = Transaction::script(gas, script.clone(), data.clone(), pol, ia, oa, wits);
    *actual.receipts_root_mut() = Bytes32::from(b32());
    let expected = Transaction::script(gas, script, data, pol, ie, oe, Vec::new());
    let eb = expected.to_bytes();
    let id = if cached {
        // precompute must store exactly the id a fresh computation yields
        actual.precompute(&chain).unwrap();
        match actual.cached_id() { Some(id) => id, None => { assert!(false, "precompute stores the id"); return } }
    } else {
        assert!(actual.cached_id().is_none());
        actual.id(&chain)
    };
    check_id(id, chain, &eb);
    kani::cover!(true, "id computed");
    core::mem::forget(actual);
    core::mem::forget(expected);
    core::mem::forget(eb);
}

txh!(c03_tx_script_empty, 70, script_id_case::<0>(Vec::new(), Vec::new(), false));
txh!(c03_tx_script_empty_w1, 70, script_id_case::<1>(Vec::new(), Vec::new(), false));
txh!(c03_tx_script_empty_cached, 70, script_id_case::<1>(Vec::new(), Vec::new(), true));
/// precompute, edit a non-malleable field and the chain id, precompute again: the cached id must be
/// the id of the edited transaction under the new chain id.
txh!(c03_tx_script_reprecompute, 70, {
    use fuel_tx::field::ScriptGasLimit;
    let script = bytes::<4>();
    let pol = any_policies_tip_maxfee();
    let mut tx = Transaction::script(kani::any(), script.clone(), Vec::new(), pol, Vec::new(), Vec::new(), Vec::new());
    tx.precompute(&ChainId::new(kani::any())).unwrap();
    unsafe { LOG_LEN = 0; }
    let gas2: u64 = kani::any();
    *tx.script_gas_limit_mut() = gas2;
    let chain2 = ChainId::new(kani::any());
    tx.precompute(&chain2).unwrap();
    let expected = Transaction::script(gas2, script, Vec::new(), pol, Vec::new(), Vec::new(), Vec::new());
    let eb = expected.to_bytes();
    match tx.cached_id() { Some(id) => check_id(id, chain2, &eb), None => assert!(false, "precompute stores the id") }
    kani::cover!(true, "id recomputed");
    core::mem::forget(tx); core::mem::forget(expected); core::mem::forget(eb);
});
txh!(c03_tx_script_coin_change, 70, {
    let (u, o, am, a, w) = (utxo(), addr(), kani::any(), asset(), kani::any());
    let (t, a2) = (addr(), asset());
    script_id_case::<1>(
        vec![(Input::coin_signed(u, o, am, a, txp(), w), Input::coin_signed(u, o, am, a, TxPointer::default(), w))],
        vec![(Output::change(t, kani::any(), a2), Output::change(t, 0, a2))], false)
});
txh!(c03_tx_script_contract_variable, 70, {
    let c = ContractId::from(b32());
    let i: u16 = kani::any();
    script_id_case::<0>(
        vec![(Input::contract(utxo(), Bytes32::from(b32()), Bytes32::from(b32()), txp(), c),
              Input::contract(UtxoId::default(), Bytes32::zeroed(), Bytes32::zeroed(), TxPointer::default(), c))],
        vec![(Output::contract(i, Bytes32::from(b32()), Bytes32::from(b32())), Output::contract(i, Bytes32::zeroed(), Bytes32::zeroed())),
             (Output::variable(addr(), kani::any(), asset()), Output::variable(Address::zeroed(), 0, AssetId::zeroed()))], false)
});
