//! Shared Merkle machinery for C09/C10/C11/C14/C15 harnesses: stand-in hashes, reference
//! definitions (RFC 6962), array-backed node storage (no hash maps, K5).
use core::convert::Infallible;
use fuel_merkle::binary::Primitive;
use fuel_storage::{Mappable, StorageInspect, StorageMutate};
use std::borrow::Cow;

pub type B32 = [u8; 32];

#[inline(always)]
pub fn words(b: &B32) -> [u64; 4] {
    [
        u64::from_le_bytes([b[0], b[1], b[2], b[3], b[4], b[5], b[6], b[7]]),
        u64::from_le_bytes([b[8], b[9], b[10], b[11], b[12], b[13], b[14], b[15]]),
        u64::from_le_bytes([b[16], b[17], b[18], b[19], b[20], b[21], b[22], b[23]]),
        u64::from_le_bytes([b[24], b[25], b[26], b[27], b[28], b[29], b[30], b[31]]),
    ]
}
#[inline(always)]
pub fn unwords(w: [u64; 4]) -> B32 {
    let mut b = [0u8; 32];
    let (a0, a1, a2, a3) = (w[0].to_le_bytes(), w[1].to_le_bytes(), w[2].to_le_bytes(), w[3].to_le_bytes());
    b[0] = a0[0]; b[1] = a0[1]; b[2] = a0[2]; b[3] = a0[3]; b[4] = a0[4]; b[5] = a0[5]; b[6] = a0[6]; b[7] = a0[7];
    b[8] = a1[0]; b[9] = a1[1]; b[10] = a1[2]; b[11] = a1[3]; b[12] = a1[4]; b[13] = a1[5]; b[14] = a1[6]; b[15] = a1[7];
    b[16] = a2[0]; b[17] = a2[1]; b[18] = a2[2]; b[19] = a2[3]; b[20] = a2[4]; b[21] = a2[5]; b[22] = a2[6]; b[23] = a2[7];
    b[24] = a3[0]; b[25] = a3[1]; b[26] = a3[2]; b[27] = a3[3]; b[28] = a3[4]; b[29] = a3[5]; b[30] = a3[6]; b[31] = a3[7];
    b
}
/// Loop-free equality of 32-byte values (slice `==` is a memcmp loop for CBMC).
#[inline(always)]
pub fn eq32(a: &B32, b: &B32) -> bool {
    let (x, y) = (words(a), words(b));
    x[0] == y[0] && x[1] == y[1] && x[2] == y[2] && x[3] == y[3]
}

// --- TOY stand-in hashes (DESIGN §3.1): stateless, loop-free, one constant per wrapper ---------
const K_LEAF: u64 = 0x9e37_79b9_7f4a_7c15;
const K_NODE: u64 = 0xc2b2_ae3d_27d4_eb4f;

fn mix(a: u64, b: u64, k: u64) -> u64 {
    // rotate / xor / add only: no multiplier for the SAT back end
    let x = a.rotate_left(13) ^ b.wrapping_add(k);
    (x.rotate_left(29) ^ a).wrapping_add(x.rotate_left(47)) ^ k
}

/// TOY leaf hash: depends on the length and on up to 4 sampled bytes (first three, last).
pub fn toy_leaf(data: &[u8]) -> B32 {
    let n = data.len();
    let b0 = if n > 0 { data[0] } else { 0 } as u64;
    let b1 = if n > 1 { data[1] } else { 0 } as u64;
    let b2 = if n > 2 { data[2] } else { 0 } as u64;
    let bl = if n > 3 { data[n - 1] } else { 0 } as u64;
    let x = (n as u64) ^ (b0 << 8) ^ (b1 << 16) ^ (b2 << 24) ^ (bl << 32);
    unwords([mix(x, 1, K_LEAF), mix(x, 2, K_LEAF), mix(x, 3, K_LEAF), mix(x, 4, K_LEAF)])
}
/// TOY node hash: order sensitive word mixing of both children.
pub fn toy_node(l: &B32, r: &B32) -> B32 {
    let (a, b) = (words(l), words(r));
    unwords([
        mix(a[0], b[1], K_NODE) ^ b[0].rotate_left(7),
        mix(a[1], b[2], K_NODE) ^ b[1].rotate_left(11),
        mix(a[2], b[3], K_NODE) ^ b[2].rotate_left(17),
        mix(a[3], b[0], K_NODE) ^ b[3].rotate_left(23),
    ])
}

// Reference-side hashing.  Under Kani the implementation's wrappers are stubbed by the TOY
// functions and the reference calls the same TOY functions; in a native replay
// (cfg(verif_playback)) stubs are inert, the implementation runs real SHA-256, and so does the
// reference -- a counterexample is only reported if it reproduces with the real hash.
#[cfg(not(verif_playback))]
pub fn h_leaf(data: &[u8]) -> B32 { toy_leaf(data) }
#[cfg(not(verif_playback))]
pub fn h_node(l: &B32, r: &B32) -> B32 { toy_node(l, r) }
#[cfg(verif_playback)]
pub fn h_leaf(data: &[u8]) -> B32 {
    use sha2::Digest;
    let mut h = sha2::Sha256::new(); h.update([0u8]); h.update(data); h.finalize().into()
}
#[cfg(verif_playback)]
pub fn h_node(l: &B32, r: &B32) -> B32 {
    use sha2::Digest;
    let mut h = sha2::Sha256::new(); h.update([1u8]); h.update(l); h.update(r); h.finalize().into()
}

pub const EMPTY_SHA256: B32 = [
    0xe3, 0xb0, 0xc4, 0x42, 0x98, 0xfc, 0x1c, 0x14, 0x9a, 0xfb, 0xf4, 0xc8, 0x99, 0x6f, 0xb9, 0x24,
    0x27, 0xae, 0x41, 0xe4, 0x64, 0x9b, 0x93, 0x4c, 0xa4, 0x95, 0x99, 0x1b, 0x78, 0x52, 0xb8, 0x55,
];

/// RFC 6962 §2.1 MTH over leaf *hashes*: MTH({}) = H(), MTH({d}) = leaf hash,
/// MTH(D[n]) = H(0x01 || MTH(D[0:k]) || MTH(D[k:n])) with k the largest power of two < n.
/// Recursion on the (concrete) slice length; n <= 16.
pub fn mth(h: &[B32]) -> B32 {
    let n = h.len();
    if n == 0 { return EMPTY_SHA256 }
    if n == 1 { return h[0] }
    let k = if n > 8 { 8 } else if n > 4 { 4 } else if n > 2 { 2 } else { 1 };
    let (l, r) = h.split_at(k);
    h_node(&mth(l), &mth(r))
}

// --- array-backed node table ----------------------------------------------------------------
#[derive(Debug)]
pub struct NodesT;
impl Mappable for NodesT {
    type Key = Self::OwnedKey;
    type OwnedKey = u64;
    type OwnedValue = Primitive;
    type Value = Self::OwnedValue;
}

#[derive(Clone, Copy)]
pub struct ArrStorage<const N: usize> {
    pub used: [bool; N],
    pub keys: [u64; N],
    pub vals: [Primitive; N],
}
impl<const N: usize> ArrStorage<N> {
    pub fn new() -> Self {
        Self { used: [false; N], keys: [0; N], vals: [(0, [0u8; 32]); N] }
    }
    fn find(&self, k: u64) -> Option<usize> {
        let mut i = 0;
        while i < N {
            if self.used[i] && self.keys[i] == k { return Some(i) }
            i += 1;
        }
        None
    }
}
impl<const N: usize> StorageInspect<NodesT> for ArrStorage<N> {
    type Error = Infallible;
    fn get(&self, key: &u64) -> Result<Option<Cow<'_, Primitive>>, Infallible> {
        Ok(self.find(*key).map(|i| Cow::Borrowed(&self.vals[i])))
    }
    fn contains_key(&self, key: &u64) -> Result<bool, Infallible> {
        Ok(self.find(*key).is_some())
    }
}
impl<const N: usize> StorageMutate<NodesT> for ArrStorage<N> {
    fn replace(&mut self, key: &u64, value: &Primitive) -> Result<Option<Primitive>, Infallible> {
        if let Some(i) = self.find(*key) {
            let old = self.vals[i];
            self.vals[i] = *value;
            return Ok(Some(old))
        }
        let mut i = 0;
        while i < N {
            if !self.used[i] {
                self.used[i] = true; self.keys[i] = *key; self.vals[i] = *value;
                return Ok(None)
            }
            i += 1;
        }
        panic!("ArrStorage capacity exceeded (harness bound)");
    }
    fn take(&mut self, key: &u64) -> Result<Option<Primitive>, Infallible> {
        if let Some(i) = self.find(*key) {
            self.used[i] = false;
            return Ok(Some(self.vals[i]))
        }
        Ok(None)
    }
}

/// Shared handle so that a tree can be dropped and re-loaded from the same storage.
#[derive(Clone, Copy)]
pub struct StPtr<const N: usize>(pub *mut ArrStorage<N>);
impl<const N: usize> StorageInspect<NodesT> for StPtr<N> {
    type Error = Infallible;
    fn get(&self, key: &u64) -> Result<Option<Cow<'_, Primitive>>, Infallible> {
        unsafe { (*self.0).get(key) }
    }
    fn contains_key(&self, key: &u64) -> Result<bool, Infallible> {
        unsafe { (*self.0).contains_key(key) }
    }
}
impl<const N: usize> StorageMutate<NodesT> for StPtr<N> {
    fn replace(&mut self, key: &u64, value: &Primitive) -> Result<Option<Primitive>, Infallible> {
        unsafe { (*self.0).replace(key, value) }
    }
    fn take(&mut self, key: &u64) -> Result<Option<Primitive>, Infallible> {
        unsafe { (*self.0).take(key) }
    }
}

// --- K2: non-formatting models of Result::{expect, unwrap} (Kani ICE on derived Debug of an
// enum with an uninhabited payload); same control flow, no fmt machinery.
pub fn expect_model<T, E: core::fmt::Debug>(r: Result<T, E>, _msg: &str) -> T {
    match r { Ok(t) => t, Err(_) => panic!("Result::expect on Err") }
}
pub fn unwrap_model<T, E: core::fmt::Debug>(r: Result<T, E>) -> T {
    match r { Ok(t) => t, Err(_) => panic!("Result::unwrap on Err") }
}



/// Native-replay support for verifier harnesses.  Under Kani the `root` is a free symbolic value
/// and the hash is the TOY stand-in; a counterexample's root is therefore meaningless for real
/// SHA-256.  In a native replay (cfg(verif_playback)) the harness re-checks the obligation for every
/// *candidate* root that some fold of the solver's proof elements can produce with the real hash
/// (all prefixes, all left/right orientations, `node` = the real node hash), so that an
/// implementation that accepts a tuple it must reject is caught with a concrete SHA-256 witness.
#[cfg(verif_playback)]
pub fn candidate_roots(start: &B32, proof: &[B32], node: fn(&B32, &B32) -> B32) -> Vec<B32> {
    let mut out = vec![*start];
    let n = core::cmp::min(proof.len(), 6);
    for k in 1..=n {
        for mask in 0u32..(1 << k) {
            let mut cur = *start;
            for i in 0..k {
                cur = if (mask >> i) & 1 == 0 { node(&cur, &proof[i]) } else { node(&proof[i], &cur) };
            }
            out.push(cur);
        }
    }
    out
}
