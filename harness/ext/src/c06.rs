//! C06 — serde formats round-trip protocol types: the hand-written serde impl of `Policies`
//! (legacy 4-value layout vs compact layout, chosen by the bit pattern) through postcard and bincode.
//! The policy mask is a harness constant (it fixes the length of the value vector); values symbolic.
use fuel_tx::policies::{Policies, PolicyType};

fn policies(mask: u8) -> Policies {
    let mut p = Policies::new();
    if mask & 1 != 0 { p.set(PolicyType::Tip, Some(kani::any())); }
    if mask & 2 != 0 { p.set(PolicyType::WitnessLimit, Some(kani::any())); }
    if mask & 4 != 0 { p.set(PolicyType::Maturity, Some(kani::any::<u32>() as u64)); }
    if mask & 8 != 0 { p.set(PolicyType::MaxFee, Some(kani::any())); }
    if mask & 16 != 0 { p.set(PolicyType::Expiration, Some(kani::any::<u32>() as u64)); }
    if mask & 32 != 0 { p.set(PolicyType::Owner, Some(kani::any())); }
    p
}

fn same(p: &Policies, q: &Policies) {
    assert!(p == q, "deserialized policies equal the original");
    // and entry by entry through the public getters (incl. the newer owner / expiration entries)
    assert!(p.get(PolicyType::Tip) == q.get(PolicyType::Tip));
    assert!(p.get(PolicyType::WitnessLimit) == q.get(PolicyType::WitnessLimit));
    assert!(p.get(PolicyType::Maturity) == q.get(PolicyType::Maturity));
    assert!(p.get(PolicyType::MaxFee) == q.get(PolicyType::MaxFee));
    assert!(p.get(PolicyType::Expiration) == q.get(PolicyType::Expiration));
    assert!(p.get(PolicyType::Owner) == q.get(PolicyType::Owner));
    assert!(p.bits() == q.bits());
}

fn postcard_rt(mask: u8) {
    let p = policies(mask);
    let b = match postcard::to_allocvec(&p) { Ok(b) => b, Err(_) => { assert!(false, "postcard serialization failed"); return } };
    match postcard::from_bytes::<Policies>(&b) {
        Ok(q) => { same(&p, &q); kani::cover!(true, "postcard round trip"); }
        Err(_) => assert!(false, "postcard deserialization of the serialization failed"),
    }
    core::mem::forget(b);
}
fn bincode_rt(mask: u8) {
    let p = policies(mask);
    let b = match bincode::serialize(&p) { Ok(b) => b, Err(_) => { assert!(false, "bincode serialization failed"); return } };
    match bincode::deserialize::<Policies>(&b) {
        Ok(q) => { same(&p, &q); kani::cover!(true, "bincode round trip"); }
        Err(_) => assert!(false, "bincode deserialization of the serialization failed"),
    }
    core::mem::forget(b);
}

macro_rules! h {
    ($name:ident, $body:expr) => {
        #[kani::proof] #[kani::unwind(12)]
        #[kani::stub(core::result::Result::expect, crate::mk::expect_model)]
        #[kani::stub(core::result::Result::unwrap, crate::mk::unwrap_model)]
        pub fn $name() { $body; }
    };
}
h!(c06_policies_postcard_none, postcard_rt(0));
h!(c06_policies_postcard_legacy_all4, postcard_rt(0b001111));
h!(c06_policies_postcard_legacy_tip, postcard_rt(0b000001));
h!(c06_policies_postcard_expiration, postcard_rt(0b010000));
h!(c06_policies_postcard_owner_maxfee, postcard_rt(0b101000));
h!(c06_policies_postcard_all, postcard_rt(0b111111));
h!(c06_policies_bincode_legacy_maturity, bincode_rt(0b000100));
h!(c06_policies_bincode_owner, bincode_rt(0b100000));
h!(c06_policies_bincode_all, bincode_rt(0b111111));
