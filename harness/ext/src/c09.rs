//! C09 — binary Merkle roots equal the RFC 6962 tree hash.
use crate::mk::*;
use fuel_merkle::binary::{root_calculator::MerkleRootCalculator, MerkleTree};

type Tree = MerkleTree<NodesT, StPtr<16>>;

/// Leaf data wrapped in a struct (Kani K8: no slices of nested byte arrays).
#[derive(Clone, Copy)]
pub struct Leaf { pub b: [u8; 2] }

fn any_leaves<const N: usize>() -> [Leaf; N] {
    let mut l = [Leaf { b: [0; 2] }; N];
    let mut i = 0;
    while i < N { l[i] = Leaf { b: kani::any() }; i += 1; }
    l
}
fn leaf_hashes<const N: usize>(l: &[Leaf; N]) -> [B32; N] {
    let mut h = [[0u8; 32]; N];
    let mut i = 0;
    while i < N { h[i] = h_leaf(&l[i].b); i += 1; }
    h
}

macro_rules! h {
    ($fname:ident, $body:block) => {
        #[kani::proof] #[kani::unwind(20)]
        #[kani::stub(fuel_merkle::binary::hash::leaf_sum, toy_leaf)]
        #[kani::stub(fuel_merkle::binary::hash::node_sum, toy_node)]
        #[kani::stub(core::result::Result::expect, expect_model)]
        #[kani::stub(core::result::Result::unwrap, unwrap_model)]
        pub fn $fname() $body
    };
}

fn calc<const N: usize>() {
    let l = any_leaves::<N>();
    let mut c = MerkleRootCalculator::new();
    let mut i = 0;
    while i < N { c.push(&l[i].b); i += 1; }
    let r = c.root();
    assert!(eq32(&r, &mth(&leaf_hashes(&l))));
    kani::cover!(true, "root compared");
}
h!(c09_calc_n0, { calc::<0>() });
h!(c09_calc_n1, { calc::<1>() });
h!(c09_calc_n2, { calc::<2>() });
h!(c09_calc_n3, { calc::<3>() });
h!(c09_calc_n4, { calc::<4>() });
h!(c09_calc_n5, { calc::<5>() });
h!(c09_calc_n6, { calc::<6>() });
h!(c09_calc_n7, { calc::<7>() });
h!(c09_calc_n8, { calc::<8>() });
h!(c09_calc_n9, { calc::<9>() });

fn calc_existing<const N: usize>() {
    let l = any_leaves::<N>();
    let hs = leaf_hashes(&l);
    let c = MerkleRootCalculator::new_from_existing_leaves(hs.iter().copied());
    assert!(eq32(&c.root(), &mth(&hs)));
    kani::cover!(true, "root compared");
}
h!(c09_calc_existing_n3, { calc_existing::<3>() });
h!(c09_calc_existing_n5, { calc_existing::<5>() });

fn tree<const N: usize>() {
    let l = any_leaves::<N>();
    let mut st = ArrStorage::<16>::new();
    let mut t: Tree = MerkleTree::new(StPtr(&mut st as *mut _));
    let mut i = 0;
    while i < N { t.push(&l[i].b).unwrap(); i += 1; }
    assert!(t.leaves_count() == N as u64);
    assert!(eq32(&t.root(), &mth(&leaf_hashes(&l))));
    kani::cover!(true, "root compared");
    core::mem::forget(t);
}
h!(c09_tree_n0, { tree::<0>() });
h!(c09_tree_n1, { tree::<1>() });
h!(c09_tree_n2, { tree::<2>() });
h!(c09_tree_n3, { tree::<3>() });
h!(c09_tree_n4, { tree::<4>() });
h!(c09_tree_n5, { tree::<5>() });
h!(c09_tree_n7, { tree::<7>() });
