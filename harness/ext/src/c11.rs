//! C11 — binary Merkle trees behave like fresh trees across reset and reload.
//! History templates are concrete words over {Push, Reset, Load(k)}; leaf bytes and the
//! final proof index are symbolic.  Small templates (<= 2 live leaves) with every clause; larger
//! templates (up to 8 live leaves) with count, root and selected proof indices.
use crate::mk::*;
use fuel_merkle::binary::MerkleTree;

/// storage slots / maximal number of live leaves of a template
pub const ST: usize = 32;
pub const MAXL: usize = 8;
type Tree = MerkleTree<NodesT, StPtr<ST>>;

/// Leaf bytes wrapped in a struct: Kani 0.68 mis-models unsizing `&arr_of_byte_arrays[k]` (k >= 1)
/// of a mutable local `[[u8; N]; M]` (found while building this harness; see DESIGN K8).
#[derive(Clone, Copy)]
pub struct Leaf { pub b: [u8; 2] }

#[derive(Clone, Copy)]
pub enum Op { P, R, L(u64) }
use Op::*;

fn eq_proofs(a: &(B32, Vec<B32>), b: &(B32, Vec<B32>)) -> bool {
    if !eq32(&a.0, &b.0) || a.1.len() != b.1.len() { return false }
    let mut i = 0;
    while i < a.1.len() {
        if !eq32(&a.1[i], &b.1[i]) { return false }
        i += 1;
    }
    true
}

/// Run `ops` on one tree and build a fresh tree from the ghost list of live leaves.
/// Returns (tree, fresh, live leaves, number of live leaves).
fn run_history(ops: &[Op], st: *mut ArrStorage<ST>, st2: *mut ArrStorage<ST>) -> (Tree, Tree, [Leaf; MAXL], usize) {
    let sp = StPtr(st);
    let mut tree: Tree = MerkleTree::new(sp);
    let mut live: [Leaf; MAXL] = [Leaf { b: [0; 2] }; MAXL];
    let mut n_live: usize = 0;
    let mut i = 0;
    while i < ops.len() {
        match ops[i] {
            P => {
                let leaf = Leaf { b: kani::any() };
                assert!(n_live < MAXL, "template holds at most MAXL live leaves");
                tree.push(&leaf.b).unwrap();
                live[n_live] = leaf;
                n_live += 1;
            }
            R => { tree.reset(); n_live = 0; }
            L(k) => {
                assert!((k as usize) <= n_live);
                tree = MerkleTree::load(sp, k).unwrap();
                n_live = k as usize;
            }
        }
        i += 1;
    }
    let mut fresh: Tree = MerkleTree::new(StPtr(st2));
    let mut k = 0;
    while k < n_live { fresh.push(&live[k].b).unwrap(); k += 1; }
    (tree, fresh, live, n_live)
}

fn check_count(ops: &[Op]) {
    let (mut st, mut st2) = (ArrStorage::<ST>::new(), ArrStorage::<ST>::new());
    let (tree, fresh, _live, n_live) = run_history(ops, &mut st, &mut st2);
    assert!(tree.leaves_count() == n_live as u64);
    assert!(fresh.leaves_count() == n_live as u64);
    kani::cover!(true, "history completed");
    core::mem::forget(tree); core::mem::forget(fresh);
}

fn check_root(ops: &[Op]) {
    let (mut st, mut st2) = (ArrStorage::<ST>::new(), ArrStorage::<ST>::new());
    let (tree, fresh, live, n_live) = run_history(ops, &mut st, &mut st2);
    assert!(eq32(&tree.root(), &fresh.root()));
    // and the fresh root is the RFC 6962 tree hash of the live leaves
    let mut hs = [[0u8; 32]; MAXL];
    let mut k = 0;
    while k < n_live { hs[k] = h_leaf(&live[k].b); k += 1; }
    assert!(eq32(&fresh.root(), &mth(&hs[..n_live])));
    kani::cover!(true, "history completed");
    core::mem::forget(tree); core::mem::forget(fresh);
}

/// `j`: concrete proof index (0, 1, 2 and three far-out representatives: a symbolic index makes
/// CBMC explore the path iterator with a symbolic leaf position, which does not finish).
fn check_prove(ops: &[Op], j: Option<u64>) {
    let (mut st, mut st2) = (ArrStorage::<ST>::new(), ArrStorage::<ST>::new());
    let (tree, fresh, _live, n_live) = run_history(ops, &mut st, &mut st2);
    let j = match j { Some(j) => j, None => { let j: u64 = kani::any(); kani::assume(j >= 3); j } };
    let a = tree.prove(j);
    let b = fresh.prove(j);
    assert!(a.is_ok() == b.is_ok());
    assert!(a.is_ok() == (j < n_live as u64), "proofs are refused at or beyond the live leaf count");
    if let (Ok(x), Ok(y)) = (&a, &b) {
        assert!(eq_proofs(x, y));
    }
    kani::cover!(a.is_ok() == (j < n_live as u64), "proof compared");
    core::mem::forget(a); core::mem::forget(b);
    core::mem::forget(tree); core::mem::forget(fresh);
}

macro_rules! h {
    ($fname:ident, $body:expr) => {
        #[kani::proof] #[kani::unwind(40)]
        #[kani::stub(fuel_merkle::binary::hash::leaf_sum, toy_leaf)]
        #[kani::stub(fuel_merkle::binary::hash::node_sum, toy_node)]
        #[kani::stub(core::result::Result::expect, expect_model)]
        #[kani::stub(core::result::Result::unwrap, unwrap_model)]
        pub fn $fname() { $body }
    };
}
macro_rules! history {
    ($name:ident, [$($op:expr),*]) => {
        pub mod $name {
            use super::*;
            const OPS: &[Op] = &[$($op),*];
            h!(c11_count, check_count(OPS));
            h!(c11_root, check_root(OPS));
            h!(c11_prove_j0, check_prove(OPS, Some(0)));
            h!(c11_prove_j1, check_prove(OPS, Some(1)));
            h!(c11_prove_j2, check_prove(OPS, Some(2)));
            h!(c11_prove_jfar, { check_prove(OPS, Some(3)); check_prove(OPS, Some(4)); check_prove(OPS, Some(u64::MAX)); });
        }
    };
}
/// Larger histories (3..8 live leaves): proofs at selected indices and the count.
macro_rules! big_history {
    ($name:ident, [$($op:expr),*], [$($j:literal),*]) => {
        pub mod $name {
            use super::*;
            const OPS: &[Op] = &[$($op),*];
            h!(c11_count, check_count(OPS));
            h!(c11_root, check_root(OPS));
            h!(c11_prove_sel, { $( check_prove(OPS, Some($j)); )* });
        }
    };
}
big_history!(h_p3rp2, [P, P, P, R, P, P], [0, 1, 2]);
big_history!(h_p3l2p, [P, P, P, L(2), P], [0, 2, 3]);
big_history!(h_p4rp3, [P, P, P, P, R, P, P, P], [0, 2, 3]);
big_history!(h_p4l3, [P, P, P, P, L(3)], [0, 2, 3]);
big_history!(h_p8rp7, [P, P, P, P, P, P, P, P, R, P, P, P, P, P, P, P], [0, 6, 7]);
big_history!(h_p8l7, [P, P, P, P, P, P, P, P, L(7)], [0, 6, 7]);
big_history!(h_p5rp5, [P, P, P, P, P, R, P, P, P, P, P], [3, 4, 5]);

history!(h_p, [P]);
history!(h_pp, [P, P]);
history!(h_pr, [P, R]);
history!(h_prp, [P, R, P]);
history!(h_ppr, [P, P, R]);
history!(h_pprp, [P, P, R, P]);
history!(h_prpp, [P, R, P, P]);
history!(h_pprpp, [P, P, R, P, P]);
history!(h_prprp, [P, R, P, R, P]);
history!(h_pl1, [P, L(1)]);
history!(h_pl0, [P, L(0)]);
history!(h_ppl2, [P, P, L(2)]);
history!(h_ppl1, [P, P, L(1)]);
history!(h_pl1p, [P, L(1), P]);
history!(h_ppl1p, [P, P, L(1), P]);
history!(h_ppl2r, [P, P, L(2), R]);
history!(h_ppl2rp, [P, P, L(2), R, P]);
history!(h_prpl1, [P, R, P, L(1)]);
history!(h_pprpl1p, [P, P, R, P, L(1), P]);
history!(h_l0p, [L(0), P]);
