//! C28 (receipts clause, also the receipts-root tie-in of C09): the committed receipts root equals
//! the binary Merkle root (RFC 6962) of the canonically encoded receipts; pushing a receipt
//! appends exactly that receipt.
use crate::mk::*;
use fuel_tx::{Receipt, ScriptExecutionResult};
use fuel_types::{canonical::Serialize, AssetId, ContractId};
use fuel_vm::interpreter::ReceiptsCtx;

fn cid() -> ContractId { ContractId::from(kani::any::<[u8; 32]>()) }
/// A receipt of kind `k` (harness constant) with symbolic fields.
fn any_receipt(k: u8) -> Receipt {
    match k {
        0 => Receipt::ret(cid(), kani::any(), kani::any(), kani::any()),
        1 => Receipt::revert(cid(), kani::any(), kani::any(), kani::any()),
        2 => Receipt::log(cid(), kani::any(), kani::any(), kani::any(), kani::any(), kani::any(), kani::any()),
        3 => Receipt::transfer(cid(), cid(), kani::any(), AssetId::from(kani::any::<[u8; 32]>()), kani::any(), kani::any()),
        _ => Receipt::script_result(if kani::any() { ScriptExecutionResult::Success } else { ScriptExecutionResult::Revert }, kani::any()),
    }
}

macro_rules! h {
    ($fname:ident, $body:block) => {
        #[kani::proof] #[kani::unwind(140)]
        #[kani::stub(fuel_merkle::binary::hash::leaf_sum, toy_leaf)]
        #[kani::stub(fuel_merkle::binary::hash::node_sum, toy_node)]
        #[kani::stub(core::result::Result::expect, expect_model)]
        #[kani::stub(core::result::Result::unwrap, unwrap_model)]
        pub fn $fname() $body
    };
}

fn receipts_root(kinds: &[u8]) {
    let mut ctx = ReceiptsCtx::default();
    let mut hashes = [[0u8; 32]; 4];
    let mut i = 0;
    while i < kinds.len() {
        let r = any_receipt(kinds[i]);
        let bytes = r.to_bytes();
        hashes[i] = h_leaf(&bytes);
        core::mem::forget(bytes);
        assert!(ctx.push(r).is_ok());
        assert!(ctx.len() == i + 1);
        i += 1;
    }
    let root: B32 = *ctx.root();
    assert!(eq32(&root, &mth(&hashes[..kinds.len()])));
    kani::cover!(true, "root compared");
    core::mem::forget(ctx);
}
h!(c28_receipts_root_empty, { receipts_root(&[]) });
h!(c28_receipts_root_ret, { receipts_root(&[0]) });
h!(c28_receipts_root_log_ret, { receipts_root(&[2, 0]) });
h!(c28_receipts_root_transfer_revert_result, { receipts_root(&[3, 1, 4]) });
h!(c28_receipts_root_four, { receipts_root(&[2, 2, 0, 4]) });
