//! C15 (code-root clause): the contract code root equals the binary Merkle root of the code split
//! into 16 KiB chunks with the final partial chunk zero-padded to a multiple of 8 bytes.
use crate::mk::*;
use fuel_tx::Contract;

macro_rules! h {
    ($fname:ident, $body:block) => {
        #[kani::proof] #[kani::unwind(40)]
        #[kani::stub(fuel_merkle::binary::hash::leaf_sum, toy_leaf)]
        #[kani::stub(fuel_merkle::binary::hash::node_sum, toy_node)]
        #[kani::stub(core::result::Result::expect, expect_model)]
        #[kani::stub(core::result::Result::unwrap, unwrap_model)]
        pub fn $fname() $body
    };
}

/// single chunk of L bytes (L < 16384): root = leaf hash of the code zero-padded to a multiple of 8
fn one_chunk<const L: usize, const P: usize>() {
    let code: [u8; L] = kani::any();
    let root: B32 = *Contract::root_from_code(&code[..]);
    let mut padded = [0u8; P];
    let mut i = 0;
    while i < L { padded[i] = code[i]; i += 1; }
    let want = if L == 0 { EMPTY_SHA256 } else { h_leaf(&padded[..]) };
    assert!(eq32(&root, &want));
    kani::cover!(true, "code root compared");
}
h!(c15_code_root_len0, { one_chunk::<0, 0>() });
h!(c15_code_root_len1, { one_chunk::<1, 8>() });
h!(c15_code_root_len7, { one_chunk::<7, 8>() });
h!(c15_code_root_len8, { one_chunk::<8, 8>() });
h!(c15_code_root_len9, { one_chunk::<9, 16>() });
h!(c15_code_root_len12, { one_chunk::<12, 16>() });
h!(c15_code_root_len16, { one_chunk::<16, 16>() });
