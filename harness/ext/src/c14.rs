//! C14 — sparse Merkle proofs: the verifiers equal the compact-tree recomputation (V half);
//! C12 probes — sparse tree construction against the compact sparse Merkle root.
use crate::mk::*;
use fuel_merkle::sparse::{self, proof::{ExclusionLeaf, ExclusionLeafData, ExclusionProof, InclusionProof}, MerkleTreeKey};

// stand-in hashes for the sparse wrappers (domain separated from the binary ones)
pub fn toy_sparse_leaf(key: &B32, value: &B32) -> B32 {
    let mut t = toy_node(key, value);
    t[0] ^= 0x5a;
    t
}
pub fn toy_sparse_node(l: &B32, r: &B32) -> B32 {
    let mut t = toy_node(l, r);
    t[31] ^= 0xa5;
    t
}
/// `common::sum`: value hash.  32-byte inputs are mapped to themselves (so that a symbolic key can
/// be passed through `MerkleTreeKey::new`), everything else through the TOY leaf mix.
pub fn toy_sum<T: AsRef<[u8]>>(data: T) -> B32 {
    let d = data.as_ref();
    if d.len() == 32 {
        let mut o = [0u8; 32];
        let mut i = 0;
        while i < 32 { o[i] = d[i]; i += 1; }
        o
    } else { toy_leaf(d) }
}
#[cfg(not(verif_playback))]
pub fn s_leaf(k: &B32, v: &B32) -> B32 { toy_sparse_leaf(k, v) }
#[cfg(not(verif_playback))]
pub fn s_node(l: &B32, r: &B32) -> B32 { toy_sparse_node(l, r) }
#[cfg(not(verif_playback))]
pub fn s_sum(d: &[u8]) -> B32 { toy_sum(d) }
#[cfg(verif_playback)]
pub fn s_leaf(k: &B32, v: &B32) -> B32 { use sha2::Digest; let mut h = sha2::Sha256::new(); h.update([0u8]); h.update(k); h.update(v); h.finalize().into() }
#[cfg(verif_playback)]
pub fn s_node(l: &B32, r: &B32) -> B32 { use sha2::Digest; let mut h = sha2::Sha256::new(); h.update([1u8]); h.update(l); h.update(r); h.finalize().into() }
#[cfg(verif_playback)]
pub fn s_sum(d: &[u8]) -> B32 { use sha2::Digest; let mut h = sha2::Sha256::new(); h.update(d); h.finalize().into() }

macro_rules! h {
    ($fname:ident, $unw:literal, $body:block) => {
        #[kani::proof] #[kani::unwind($unw)]
        #[kani::stub(fuel_merkle::sparse::hash::calculate_leaf_hash, toy_sparse_leaf)]
        #[kani::stub(fuel_merkle::sparse::hash::calculate_node_hash, toy_sparse_node)]
        #[kani::stub(fuel_merkle::common::hash::sum, toy_sum)]
        #[kani::stub(core::result::Result::expect, expect_model)]
        #[kani::stub(core::result::Result::unwrap, unwrap_model)]
        pub fn $fname() $body
    };
}

/// bit `i` (0 = most significant) of a 256-bit key
pub fn key_bit(k: &B32, i: usize) -> bool { (k[i / 8] >> (7 - (i % 8))) & 1 == 1 }

/// Compact sparse tree recomputation: fold the side nodes bottom-up along the key's bits; side
/// node `i` of a proof of length `len` joins at depth `len - 1 - i`.
pub fn recompute(key: &B32, start: B32, proof: &[B32]) -> B32 {
    let mut cur = start;
    let len = proof.len();
    let mut i = 0;
    while i < len {
        let depth = len - 1 - i;
        cur = if !key_bit(key, depth) { s_node(&cur, &proof[i]) } else { s_node(&proof[i], &cur) };
        i += 1;
    }
    cur
}

fn any_proof<const LEN: usize>() -> Vec<B32> {
    let mut p: Vec<B32> = Vec::with_capacity(LEN);
    let mut i = 0;
    while i < LEN { p.push(kani::any()); i += 1; }
    p
}
#[derive(Clone, Copy)]
pub struct Val { pub b: [u8; 2] }

fn inclusion<const LEN: usize>() {
    let (root, key): (B32, B32) = (kani::any(), kani::any());
    let value = Val { b: kani::any() };
    let proof = InclusionProof { proof_set: any_proof::<LEN>() };
    let got = proof.verify(&root, &MerkleTreeKey::new_without_hash(key), &value.b);
    let expect = eq32(&recompute(&key, s_leaf(&key, &s_sum(&value.b)), &proof.proof_set), &root);
    assert!(got == expect);
    #[cfg(verif_playback)]
    for r in candidate_roots(&s_leaf(&key, &s_sum(&value.b)), &proof.proof_set, s_node) {
        let g = proof.verify(&r, &MerkleTreeKey::new_without_hash(key), &value.b);
        assert!(g == eq32(&recompute(&key, s_leaf(&key, &s_sum(&value.b)), &proof.proof_set), &r), "inclusion verify disagrees for a SHA-256 witness");
    }
    kani::cover!(got, "accepted"); kani::cover!(!got, "rejected");
    core::mem::forget(proof);
}
fn exclusion<const LEN: usize>(placeholder: bool) {
    let (root, key): (B32, B32) = (kani::any(), kani::any());
    let (lk, lv): (B32, B32) = (kani::any(), kani::any());
    let leaf = if placeholder { ExclusionLeaf::Placeholder } else { ExclusionLeaf::Leaf(ExclusionLeafData { leaf_key: lk, leaf_value: lv }) };
    let proof = ExclusionProof { proof_set: any_proof::<LEN>(), leaf };
    let got = proof.verify(&root, &MerkleTreeKey::new_without_hash(key));
    let start = if placeholder { [0u8; 32] } else { s_leaf(&lk, &lv) };
    let claims_key = !placeholder && eq32(&lk, &key);
    let expect = !claims_key && eq32(&recompute(&key, start, &proof.proof_set), &root);
    assert!(got == expect);
    #[cfg(verif_playback)]
    for r in candidate_roots(&start, &proof.proof_set, s_node) {
        let g = proof.verify(&r, &MerkleTreeKey::new_without_hash(key));
        assert!(g == (!claims_key && eq32(&recompute(&key, start, &proof.proof_set), &r)), "exclusion verify disagrees for a SHA-256 witness");
    }
    kani::cover!(got, "accepted"); kani::cover!(!got, "rejected");
    if !placeholder { kani::cover!(claims_key, "leaf claiming the queried key is rejected"); }
    core::mem::forget(proof);
}
h!(c14_inclusion_l0, 40, { inclusion::<0>() });
h!(c14_inclusion_l1, 40, { inclusion::<1>() });
h!(c14_inclusion_l2, 40, { inclusion::<2>() });
h!(c14_inclusion_l3, 40, { inclusion::<3>() });
h!(c14_inclusion_l5, 40, { inclusion::<5>() });
h!(c14_exclusion_leaf_l0, 40, { exclusion::<0>(false) });
h!(c14_exclusion_leaf_l2, 40, { exclusion::<2>(false) });
h!(c14_exclusion_leaf_l4, 40, { exclusion::<4>(false) });
h!(c14_exclusion_placeholder_l1, 40, { exclusion::<1>(true) });
h!(c14_exclusion_placeholder_l3, 40, { exclusion::<3>(true) });


// ---- generation half (and C12/C13 probes): sparse tree construction ------------------------
use fuel_merkle::sparse::{MerkleTree as SparseTree, Primitive as SparsePrimitive};
use fuel_storage::{Mappable, StorageInspect, StorageMutate};
use std::borrow::Cow;
use core::convert::Infallible;

#[derive(Debug)]
pub struct SNodes;
impl Mappable for SNodes {
    type Key = Self::OwnedKey;
    type OwnedKey = B32;
    type OwnedValue = SparsePrimitive;
    type Value = Self::OwnedValue;
}
/// Array-backed node table keyed by 32-byte hashes (no hash maps, K5).
pub struct SArr<const N: usize> {
    pub used: [bool; N],
    pub keys: [B32; N],
    pub vals: [SparsePrimitive; N],
}
impl<const N: usize> SArr<N> {
    pub fn new() -> Self { Self { used: [false; N], keys: [[0u8; 32]; N], vals: [(0, 0, [0u8; 32], [0u8; 32]); N] } }
    fn find(&self, k: &B32) -> Option<usize> {
        let mut i = 0;
        while i < N { if self.used[i] && eq32(&self.keys[i], k) { return Some(i) } i += 1; }
        None
    }
}
impl<const N: usize> StorageInspect<SNodes> for SArr<N> {
    type Error = Infallible;
    fn get(&self, key: &B32) -> Result<Option<Cow<'_, SparsePrimitive>>, Infallible> { Ok(self.find(key).map(|i| Cow::Borrowed(&self.vals[i]))) }
    fn contains_key(&self, key: &B32) -> Result<bool, Infallible> { Ok(self.find(key).is_some()) }
}
impl<const N: usize> StorageMutate<SNodes> for SArr<N> {
    fn replace(&mut self, key: &B32, value: &SparsePrimitive) -> Result<Option<SparsePrimitive>, Infallible> {
        if let Some(i) = self.find(key) { let old = self.vals[i]; self.vals[i] = *value; return Ok(Some(old)) }
        let mut i = 0;
        while i < N { if !self.used[i] { self.used[i] = true; self.keys[i] = *key; self.vals[i] = *value; return Ok(None) } i += 1; }
        panic!("SArr capacity exceeded (harness bound)");
    }
    fn take(&mut self, key: &B32) -> Result<Option<SparsePrimitive>, Infallible> {
        if let Some(i) = self.find(key) { self.used[i] = false; return Ok(Some(self.vals[i])) }
        Ok(None)
    }
}

/// Single-leaf tree: the generated proof is an inclusion proof exactly when the queried key is the
/// stored key, and it verifies accordingly (all 256 key bits of both keys symbolic).
h!(c14_generate_single_leaf, 300, {
    let (k, q): (B32, B32) = (kani::any(), kani::any());
    let v = Val { b: kani::any() };
    let mut tree: SparseTree<SNodes, SArr<4>> = SparseTree::new(SArr::new());
    tree.insert(MerkleTreeKey::new_without_hash(k), &v.b).unwrap();
    let root = tree.root();
    // compact root of a single leaf is the leaf hash itself
    assert!(eq32(&root, &s_leaf(&k, &s_sum(&v.b))));
    let qk = MerkleTreeKey::new_without_hash(q);
    let proof = tree.generate_proof(&qk).unwrap();
    let present = eq32(&k, &q);
    assert!(proof.is_inclusion() == present);
    match &proof {
        sparse::proof::Proof::Inclusion(p) => { assert!(p.verify(&root, &qk, &v.b)); kani::cover!(true, "inclusion proof verifies"); }
        sparse::proof::Proof::Exclusion(p) => { assert!(p.verify(&root, &qk)); kani::cover!(true, "exclusion proof verifies"); }
    }
    core::mem::forget(proof); core::mem::forget(tree);
});

// ---- C12: the sparse root depends only on the final key-value map (compact sparse Merkle root) --
/// Compact root of a map with at most two entries.  Distinct keys first differ at bit `d`
/// (bounded by the harness to d < 8): node = H(1, L_bit0, L_bit1) at the divergence point, every
/// ancestor pairs the running hash with the 32-zero-byte placeholder on the other side.
pub fn compact_root_2(k1: &B32, v1: &[u8], k2: &B32, v2: &[u8]) -> B32 {
    let (l1, l2) = (s_leaf(k1, &s_sum(v1)), s_leaf(k2, &s_sum(v2)));
    let mut d = 0usize;
    while d < 8 && key_bit(k1, d) == key_bit(k2, d) { d += 1; }
    assert!(d < 8, "harness bound: keys differ within the first byte");
    let mut cur = if !key_bit(k1, d) { s_node(&l1, &l2) } else { s_node(&l2, &l1) };
    let zero = [0u8; 32];
    let mut depth = d;
    while depth > 0 {
        depth -= 1;
        cur = if !key_bit(k1, depth) { s_node(&cur, &zero) } else { s_node(&zero, &cur) };
    }
    cur
}
type STree = SparseTree<SNodes, SArr<24>>;
fn two_keys() -> (B32, B32) {
    let (k1, k2): (B32, B32) = (kani::any(), kani::any());
    kani::assume(k1[0] != k2[0]);
    (k1, k2)
}
// insert order does not matter; result is the compact root
h!(c12_two_inserts_both_orders, 300, {
    let (k1, k2) = two_keys();
    let (v1, v2) = (Val { b: kani::any() }, Val { b: kani::any() });
    let mut a: STree = SparseTree::new(SArr::new());
    a.insert(MerkleTreeKey::new_without_hash(k1), &v1.b).unwrap();
    a.insert(MerkleTreeKey::new_without_hash(k2), &v2.b).unwrap();
    let mut b: STree = SparseTree::new(SArr::new());
    b.insert(MerkleTreeKey::new_without_hash(k2), &v2.b).unwrap();
    b.insert(MerkleTreeKey::new_without_hash(k1), &v1.b).unwrap();
    let want = compact_root_2(&k1, &v1.b, &k2, &v2.b);
    assert!(eq32(&a.root(), &want));
    assert!(eq32(&b.root(), &want));
    kani::cover!(true, "two-leaf roots compared");
    core::mem::forget(a); core::mem::forget(b);
});
// overwrite and delete: the root is that of the final map
h!(c12_overwrite_then_delete, 300, {
    let (k1, k2) = two_keys();
    let (v1, v2, v3) = (Val { b: kani::any() }, Val { b: kani::any() }, Val { b: kani::any() });
    let mut t: STree = SparseTree::new(SArr::new());
    t.insert(MerkleTreeKey::new_without_hash(k1), &v1.b).unwrap();
    t.insert(MerkleTreeKey::new_without_hash(k2), &v2.b).unwrap();
    t.insert(MerkleTreeKey::new_without_hash(k1), &v3.b).unwrap();           // overwrite
    assert!(eq32(&t.root(), &compact_root_2(&k1, &v3.b, &k2, &v2.b)));
    t.delete(MerkleTreeKey::new_without_hash(k2)).unwrap();                    // back to one leaf
    assert!(eq32(&t.root(), &s_leaf(&k1, &s_sum(&v3.b))));
    t.delete(MerkleTreeKey::new_without_hash(k1)).unwrap();                    // empty
    assert!(eq32(&t.root(), &[0u8; 32]));
    kani::cover!(true, "history completed");
    core::mem::forget(t);
});
