//! C01 — canonical encoding round-trips and reports its own size (element layer).
//! Scalars and fixed arrays symbolic; vector lengths are harness constants over {1, 7, 8, 9}.
use fuel_tx::{input::Input, output::Output, policies::Policies, StorageSlot, TxPointer, UtxoId, Witness};
use fuel_types::{canonical::{Deserialize, Serialize}, Address, AssetId, BlockHeight, Bytes32, ContractId, Nonce};

fn b32() -> [u8; 32] { kani::any() }
fn addr() -> Address { Address::from(b32()) }
fn asset() -> AssetId { AssetId::from(b32()) }
fn utxo() -> UtxoId { UtxoId::new(Bytes32::from(b32()), kani::any()) }
fn txp() -> TxPointer { TxPointer::new(BlockHeight::from(kani::any::<u32>()), kani::any()) }
fn bytes<const L: usize>() -> Vec<u8> {
    let mut v = Vec::with_capacity(L);
    let mut i = 0;
    while i < L { v.push(kani::any()); i += 1; }
    v
}

/// The obligation: size identities, alignment, decode consumes everything and returns an equal value.
fn roundtrip<T: Serialize + Deserialize + PartialEq>(v: T) {
    let b = v.to_bytes();
    assert!(b.len() == v.size());
    assert!(v.size() == v.size_static() + v.size_dynamic());
    assert!(b.len() % 8 == 0);
    let mut s: &[u8] = &b;
    match T::decode(&mut s) {
        Ok(v2) => {
            assert!(s.is_empty(), "decode consumes exactly the encoding");
            assert!(v2 == v);
            kani::cover!(true, "round trip completed");
            core::mem::forget(v2);
        }
        Err(_) => assert!(false, "decoding the encoding failed"),
    }
    core::mem::forget(b);
    core::mem::forget(v);
}

macro_rules! h {
    ($name:ident, $unw:literal, $body:expr) => {
        #[kani::proof] #[kani::unwind($unw)]
        #[kani::stub(core::result::Result::expect, crate::mk::expect_model)]
        #[kani::stub(core::result::Result::unwrap, crate::mk::unwrap_model)]
        pub fn $name() { $body; }
    };
}
h!(c01_utxo_id, 40, roundtrip(utxo()));
h!(c01_tx_pointer, 40, roundtrip(txp()));
h!(c01_storage_slot, 70, roundtrip(StorageSlot::new(Bytes32::from(b32()), Bytes32::from(b32()))));
h!(c01_witness_l1, 40, roundtrip(Witness::from(bytes::<1>())));
h!(c01_witness_l8, 40, roundtrip(Witness::from(bytes::<8>())));
h!(c01_witness_l9, 40, roundtrip(Witness::from(bytes::<9>())));
h!(c01_output_coin, 40, roundtrip(Output::coin(addr(), kani::any(), asset())));
h!(c01_output_contract, 40, roundtrip(Output::contract(kani::any(), Bytes32::from(b32()), Bytes32::from(b32()))));
h!(c01_output_change, 40, roundtrip(Output::change(addr(), kani::any(), asset())));
h!(c01_output_variable, 40, roundtrip(Output::variable(addr(), kani::any(), asset())));
h!(c01_output_contract_created, 40, roundtrip(Output::contract_created(ContractId::from(b32()), Bytes32::from(b32()))));
h!(c01_input_coin_signed, 40, roundtrip(Input::coin_signed(utxo(), addr(), kani::any(), asset(), txp(), kani::any())));
h!(c01_input_contract, 40, roundtrip(Input::contract(utxo(), Bytes32::from(b32()), Bytes32::from(b32()), txp(), ContractId::from(b32()))));
h!(c01_input_message_coin_signed, 40, roundtrip(Input::message_coin_signed(addr(), addr(), kani::any(), Nonce::from(b32()), kani::any())));
h!(c01_input_coin_predicate_l1_l9, 40, roundtrip(Input::coin_predicate(utxo(), addr(), kani::any(), asset(), txp(), kani::any(), bytes::<1>(), bytes::<9>())));
h!(c01_input_coin_predicate_l8_l0, 40, roundtrip(Input::coin_predicate(utxo(), addr(), kani::any(), asset(), txp(), kani::any(), bytes::<8>(), bytes::<0>())));
h!(c01_input_message_coin_predicate_l7_l1, 40, roundtrip(Input::message_coin_predicate(addr(), addr(), kani::any(), Nonce::from(b32()), kani::any(), bytes::<7>(), bytes::<1>())));
h!(c01_input_message_data_signed_l9, 40, roundtrip(Input::message_data_signed(addr(), addr(), kani::any(), Nonce::from(b32()), kani::any(), bytes::<9>())));
h!(c01_input_message_data_predicate_l1_l8_l7, 40, roundtrip(Input::message_data_predicate(addr(), addr(), kani::any(), Nonce::from(b32()), kani::any(), bytes::<1>(), bytes::<8>(), bytes::<7>())));

// message predicates with an EMPTY predicate_data (the variant is selected by the predicate alone)
h!(c01_input_message_coin_predicate_l8_l0, 40, roundtrip(Input::message_coin_predicate(addr(), addr(), kani::any(), Nonce::from(b32()), kani::any(), bytes::<8>(), bytes::<0>())));
h!(c01_input_message_data_predicate_l1_l1_l0, 40, roundtrip(Input::message_data_predicate(addr(), addr(), kani::any(), Nonce::from(b32()), kani::any(), bytes::<1>(), bytes::<1>(), bytes::<0>())));

// Policies: the mask is a harness constant (a symbolic mask makes the value vector length symbolic:
// out of memory at 16 GB); values symbolic; maturity and expiration are block heights (u32), the
// documented validity of the decode side.
fn policies_roundtrip(mask: u8) {
    use fuel_tx::policies::PolicyType;
    let mut p = Policies::new();
    if mask & 1 != 0 { p.set(PolicyType::Tip, Some(kani::any())); }
    if mask & 2 != 0 { p.set(PolicyType::WitnessLimit, Some(kani::any())); }
    if mask & 4 != 0 { p.set(PolicyType::Maturity, Some(kani::any::<u32>() as u64)); }
    if mask & 8 != 0 { p.set(PolicyType::MaxFee, Some(kani::any())); }
    if mask & 16 != 0 { p.set(PolicyType::Expiration, Some(kani::any::<u32>() as u64)); }
    if mask & 32 != 0 { p.set(PolicyType::Owner, Some(kani::any())); }
    roundtrip(p)
}
h!(c01_policies_none, 40, policies_roundtrip(0));
h!(c01_policies_maturity, 40, policies_roundtrip(4));
h!(c01_policies_expiration_owner, 40, policies_roundtrip(48));
h!(c01_policies_tip_maxfee, 40, policies_roundtrip(9));
h!(c01_policies_all, 40, policies_roundtrip(63));
