// In-crate Kani harnesses for fuel-vm, included from
// fuel-vm/src/interpreter/executors/instruction.rs under cfg(all(kani, fuellabs_fuel_vm_verif)).
// Being a descendant of `interpreter::executors::instruction`, this module sees the private
// `Execute` trait and all private siblings of `interpreter`.
include!(concat!(env!("FUELLABS_FUEL_VM_VERIF_DIR"), "/incrate/build_stamp.rs"));

use super::Execute;
use crate::{
    constraints::reg_key::*,
    consts::*,
    context::Context,
    error::{Bug, IoResult, RuntimeError},
    interpreter::{
        Interpreter, InterpreterParams, MemoryInstance, NotSupportedEcal, PanicContext,
    },
    state::{Debugger, ExecuteState},
    storage::MemoryStorage,
    verification::Normal,
};
use alloc::vec::Vec;
use fuel_asm::{op, Flags, Imm06, Imm12, Imm18, Imm24, PanicReason, RegId};
use fuel_tx::{ConsensusParameters, DependentCost, GasCosts, GasCostsValues, Script};
use fuel_tx::consensus_parameters::gas::GasCostsValuesV7;
use fuel_tx::FeeParameters;
use fuel_types::{ContractId, Word};

macro_rules! vmod {
    ($name:ident, $file:literal) => {
        #[allow(dead_code, unused_imports, unused_variables, unused_mut, unsafe_code, static_mut_refs, clippy::all)]
        pub(crate) mod $name {
            include!(concat!(env!("FUELLABS_FUEL_VM_VERIF_DIR"), "/incrate/vm/", $file));
        }
    };
}
vmod!(base, "base.rs");
pub(crate) use base::*;
vmod!(c21_alu, "c21_alu.rs");
vmod!(flow, "c25_flow.rs");
vmod!(memops, "c24_mem_ops.rs");
vmod!(wide, "c22_wide.rs");
vmod!(storage_reads, "c36_storage.rs");
vmod!(ret, "c34_ret.rs");
vmod!(misc, "c29_misc.rs");
vmod!(slots, "c33_storage_slots.rs");
vmod!(slotst, "slot_storage.rs");
vmod!(assets, "c27_assets.rs");
vmod!(dbg, "c32_debugger.rs");
vmod!(crypto17, "c17_crypto.rs");
vmod!(init31, "c31_init.rs");
vmod!(meta05, "c05_meta.rs");

/// Counterexample replay (lib/replay.py): generated concrete-playback tests.
#[cfg(verif_playback)]
mod verif_playback {
    include!(env!("VERIF_PLAYBACK_FILE"));
}
