// In-crate harness support, included from fuel-vm/src/interpreter/memory.rs under
// cfg(all(kani, fuellabs_fuel_vm_verif)).  Descendant of `interpreter::memory`, so it sees the
// private fields of `MemoryInstance`.
use super::*;

impl MemoryInstance {
    /// Build a memory instance in an arbitrary representation state (one-step induction).
    pub(crate) fn verif_from_parts(stack: Vec<u8>, heap: Vec<u8>, hp: usize) -> Self {
        Self { stack, heap, hp }
    }
    pub(crate) fn verif_stack(&self) -> &Vec<u8> { &self.stack }
    pub(crate) fn verif_heap(&self) -> &Vec<u8> { &self.heap }
    pub(crate) fn verif_hp(&self) -> usize { self.hp }
    /// Representation invariant MINV (DESIGN §7 C23).
    pub(crate) fn verif_minv(&self) -> bool {
        self.stack.len() <= self.hp && self.hp <= MEM_SIZE && self.heap.len() <= MEM_SIZE
            && self.hp >= MEM_SIZE - self.heap.len()
    }
    /// flat(m, a): the byte the flat 64 MiB address space holds at `a`, if accessible.
    pub(crate) fn verif_flat(&self, a: usize) -> Option<u8> {
        if a < self.stack.len() {
            Some(self.stack[a])
        } else if a >= self.hp && a < MEM_SIZE {
            Some(self.heap[a - (MEM_SIZE - self.heap.len())])
        } else {
            None
        }
    }
}

include!(concat!(env!("FUELLABS_FUEL_VM_VERIF_DIR"), "/incrate/vm/c23_memory.rs"));
