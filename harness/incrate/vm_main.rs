// In-crate Kani harnesses for fuel-vm/src/interpreter/executors/main.rs, included from that file
// under cfg(all(kani, fuellabs_fuel_vm_verif)) (hook H3).  Descendant of `executors::main`, so it
// sees the private associated functions deploy_inner / upgrade_inner / upload_inner /
// upload_bytecode_subsection / blob_inner / run_program and predicates::{check_predicate, ..}.
include!(concat!(env!("FUELLABS_FUEL_VM_VERIF_DIR"), "/incrate/build_stamp.rs"));

use super::*;
use crate::{
    interpreter::NotSupportedEcal,
    storage::MemoryStorage,
    verification::Normal,
};
use fuel_tx::{
    policies::Policies, Script, UploadBody, Witness, BlobBody, UpgradePurpose as UP,
};
use fuel_types::{Bytes32, ContractId};

/// K2: non-formatting models of Result::{expect, unwrap}.
pub(crate) fn expect_model<T, E: core::fmt::Debug>(r: Result<T, E>, _msg: &str) -> T {
    match r { Ok(t) => t, Err(_) => panic!("Result::expect on Err") }
}
pub(crate) fn unwrap_model<T, E: core::fmt::Debug>(r: Result<T, E>) -> T {
    match r { Ok(t) => t, Err(_) => panic!("Result::unwrap on Err") }
}

macro_rules! vmod {
    ($name:ident, $file:literal) => {
        #[allow(dead_code, unused_imports, unused_variables, unused_mut, unsafe_code, static_mut_refs, clippy::all)]
        pub(crate) mod $name {
            include!(concat!(env!("FUELLABS_FUEL_VM_VERIF_DIR"), "/incrate/vm/", $file));
        }
    };
}
vmod!(slotst, "slot_storage.rs");
vmod!(c35, "c35_upload.rs");

/// Counterexample replay (lib/replay.py): generated concrete-playback tests.
#[cfg(verif_playback_main)]
mod verif_playback {
    include!(env!("VERIF_PLAYBACK_FILE"));
}
