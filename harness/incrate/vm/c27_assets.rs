// C27 — assets are conserved (contract-balance kernel and the TR step in a contract context) and
// C30 — only contracts listed as inputs are touched (Normal verifier, BAL/TR steps).
// Storage: SlotStorage (slot_storage.rs), an association-list InterpreterStorage; the real MemoryStorage's
// BTreeMap<ContractsAssetKey, Word> gives no verdict in 900 s.  Contract / asset ids are concrete and pairwise
// distinct (a separate instance has source == destination); amounts, balances, presence of the
// entries, membership in the input set, gas registers and the gas schedule are symbolic.
use super::*;
use super::c21_alu::charge;
use super::ret::{toy_leaf, toy_node};
use crate::interpreter::contract::{balance, balance_decrease, balance_increase};
use crate::storage::{ContractsAssetKey, ContractsAssets, InterpreterStorage};
use crate::storage::ContractsAssetsStorage;
use crate::verification::Verifier;
use alloc::collections::BTreeSet;
use fuel_storage::{StorageAsMut, StorageAsRef, StorageInspect};
use fuel_types::AssetId;

const SRC: ContractId = ContractId::new([0x11; 32]);
const DST: ContractId = ContractId::new([0x22; 32]);
const OTHER: ContractId = ContractId::new([0xEE; 32]);
const ASSET: AssetId = AssetId::new([0xAA; 32]);
const ASSET2: AssetId = AssetId::new([0xAB; 32]);

fn rid(i: usize) -> RegId { RegId::new(i as u8) }

use super::slotst::SlotStorage;
fn get(st: &SlotStorage, c: &ContractId, a: &AssetId) -> Option<Word> {
    st.contract_asset_id_balance(c, a).unwrap()
}

/// Storage with optional balances for (SRC, ASSET) and (DST, ASSET) and two bystanders.
fn any_storage(src_eq_dst: bool) -> (SlotStorage, Option<Word>, Option<Word>, Word, Word) {
    let mut st = SlotStorage::new();
    let s: Option<Word> = if kani::any() { Some(kani::any()) } else { None };
    let d: Option<Word> = if src_eq_dst { s } else if kani::any() { Some(kani::any()) } else { None };
    if let Some(v) = s { st.contract_asset_id_balance_insert(&SRC, &ASSET, v).unwrap(); }
    if !src_eq_dst { if let Some(v) = d { st.contract_asset_id_balance_insert(&DST, &ASSET, v).unwrap(); } }
    let (o1, o2): (Word, Word) = (kani::any(), kani::any());
    st.contract_asset_id_balance_insert(&OTHER, &ASSET, o1).unwrap();
    st.contract_asset_id_balance_insert(&SRC, &ASSET2, o2).unwrap();
    (st, s, d, o1, o2)
}

macro_rules! ah {
    ($name:ident, $body:block) => {
        #[kani::proof]
        #[kani::unwind(140)]
        #[kani::stub(crate::constraints::reg_key::split_registers, split_registers_model)]
        #[kani::stub(core::result::Result::expect, expect_model)]
        #[kani::stub(core::result::Result::unwrap, unwrap_model)]
        #[kani::stub(fuel_merkle::binary::hash::leaf_sum, toy_leaf)]
        #[kani::stub(fuel_merkle::binary::hash::node_sum, toy_node)]
        pub fn $name() $body
    };
}

// --- kernel: balance_increase / balance_decrease -----------------------------------------------
ah!(c27_balance_increase, {
    let (mut st, s, _d, o1, o2) = any_storage(false);
    let amount: Word = kani::any();
    let r = balance_increase(&mut st, &SRC, &ASSET, amount);
    let old = s.unwrap_or(0);
    if amount == 0 {
        assert!(matches!(r, Ok(false)));
        assert!(get(&st, &SRC, &ASSET) == s);
        kani::cover!(true, "zero amount: no entry created");
    } else if (old as u128) + (amount as u128) > u64::MAX as u128 {
        assert!(matches!(r, Err(RuntimeError::Recoverable(PanicReason::BalanceOverflow))));
        assert!(get(&st, &SRC, &ASSET) == s, "overflow panics instead of wrapping and leaves the balance");
        kani::cover!(true, "overflow refused");
    } else {
        assert!(matches!(r, Ok(created) if created == s.is_none()));
        assert!(get(&st, &SRC, &ASSET) == Some(old + amount));
        kani::cover!(s.is_none(), "new entry");
        kani::cover!(s.is_some(), "existing entry");
    }
    assert!(get(&st, &OTHER, &ASSET) == Some(o1) && get(&st, &SRC, &ASSET2) == Some(o2), "nothing else changes");
    core::mem::forget(st);
});

ah!(c27_balance_decrease, {
    let (mut st, s, _d, o1, o2) = any_storage(false);
    let amount: Word = kani::any();
    let r = balance_decrease(&mut st, &SRC, &ASSET, amount);
    let old = s.unwrap_or(0);
    if amount == 0 {
        assert!(r.is_ok());
        assert!(get(&st, &SRC, &ASSET) == s);
    } else if amount > old {
        assert!(matches!(r, Err(RuntimeError::Recoverable(PanicReason::NotEnoughBalance))));
        assert!(get(&st, &SRC, &ASSET) == s, "deficit panics instead of wrapping and leaves the balance");
        kani::cover!(true, "deficit refused");
    } else {
        assert!(r.is_ok());
        assert!(get(&st, &SRC, &ASSET) == Some(old - amount));
        kani::cover!(true, "debited");
    }
    assert!(get(&st, &OTHER, &ASSET) == Some(o1) && get(&st, &SRC, &ASSET2) == Some(o2));
    core::mem::forget(st);
});

// --- Normal::check_contract_in_inputs ----------------------------------------------------------
// The set is a harness constant ({SRC, DST}: a BTreeSet whose *shape* is symbolic gives no verdict in
// 900 s); the queried id is symbolic among four candidates, two of them listed.
ah!(c30_check_contract_in_inputs, {
    let mut set: BTreeSet<ContractId> = BTreeSet::new();
    set.insert(SRC);
    set.insert(DST);
    let which: u8 = kani::any();
    kani::assume(which < 4);
    let id = if which == 0 { SRC } else if which == 1 { DST } else if which == 2 { OTHER } else { ContractId::zeroed() };
    let mut pc = PanicContext::None;
    let mut v = Normal;
    let r = v.check_contract_in_inputs(&mut pc, &set, &id);
    if which < 2 {
        assert!(r.is_ok());
        assert!(matches!(pc, PanicContext::None));
        kani::cover!(true, "listed contract accepted");
    } else {
        assert!(matches!(r, Err(crate::error::PanicOrBug::Panic(PanicReason::ContractNotInInputs))));
        assert!(matches!(pc, PanicContext::ContractId(c) if c == id));
        kani::cover!(true, "unlisted contract refused");
    }
    // the empty set lists nobody
    let empty: BTreeSet<ContractId> = BTreeSet::new();
    let mut pc2 = PanicContext::None;
    assert!(v.check_contract_in_inputs(&mut pc2, &empty, &id).is_err());
    core::mem::forget(set);
});

// --- TR step in a contract (internal) context ---------------------------------------------------
const LS: usize = 128;
fn tr_memory(src: &ContractId, dst: &ContractId) -> MemoryInstance {
    // [32,64) current contract id (at $fp), [64,96) destination id, [96,128) asset id
    let mut stack: Vec<u8> = Vec::with_capacity(LS);
    let mut i = 0;
    while i < LS {
        let b = if i < 32 { 0 } else if i < 64 { src.as_ref()[i - 32] } else if i < 96 { dst.as_ref()[i - 64] } else { ASSET.as_ref()[i - 96] };
        stack.push(b);
        i += 1;
    }
    MemoryInstance::verif_from_parts(stack, Vec::new(), MEM_SIZE)
}

// `listed` (is the destination among the contract inputs) is a harness constant: a BTreeSet whose shape is
// symbolic gives no verdict in 900 s.
fn tr_case(src_eq_dst: bool, listed: bool) {
    let dst = if src_eq_dst { SRC } else { DST };
    let (st, s, d, o1, o2) = any_storage(src_eq_dst);
    let gas = any_gas_costs();
    let (cost, per_byte) = (gas.tr, gas.new_storage_per_byte);
    let mut regs = any_registers();
    assume_reg_inv(&regs);
    kani::assume(regs[R_HP] == VM_MAX_RAM && regs[R_FP] == 32 && regs[R_SSP] >= 128 && regs[R_SP] <= LS as Word);
    let amount: Word = kani::any();
    regs[0x10] = 64; regs[0x11] = amount; regs[0x12] = 96;
    let probe: usize = kani::any();
    kani::assume(probe < 64);
    let mut vm = mk_vm_with(regs, tr_memory(&SRC, &dst), gas, st);
    vm.context = Context::Call { block_height: Default::default() };
    if listed { vm.input_contracts.insert(dst); }
    vm.input_contracts.insert(OTHER);
    let res = op::TR::new(rid(0x10), rid(0x11), rid(0x12)).execute(&mut vm);
    let (s0, d0) = (s.unwrap_or(0), d.unwrap_or(0));
    // bystanders are never touched, whatever happens
    assert!(get(&vm.storage, &OTHER, &ASSET) == Some(o1) && get(&vm.storage, &SRC, &ASSET2) == Some(o2));
    if let Some(mut exp) = charge(&regs, &vm.registers, &res, cost, probe) {
        if !listed {
            assert!(matches!(res, Err(RuntimeError::Recoverable(PanicReason::ContractNotInInputs))));
            assert!(matches!(vm.panic_context, PanicContext::ContractId(c) if c == dst));
            assert!(get(&vm.storage, &SRC, &ASSET) == s && get(&vm.storage, &dst, &ASSET) == d, "no balance touched before the input check");
            assert!(vm.receipts.len() == 0);
            assert!(vm.registers[probe] == exp[probe]);
            kani::cover!(true, "destination not among the inputs");
        } else if amount == 0 {
            assert!(matches!(res, Err(RuntimeError::Recoverable(PanicReason::TransferZeroCoins))));
            assert!(get(&vm.storage, &SRC, &ASSET) == s && get(&vm.storage, &dst, &ASSET) == d);
            kani::cover!(true, "zero transfer refused");
        } else if amount > s0 {
            assert!(matches!(res, Err(RuntimeError::Recoverable(PanicReason::NotEnoughBalance))));
            assert!(get(&vm.storage, &SRC, &ASSET) == s && get(&vm.storage, &dst, &ASSET) == d);
            assert!(vm.receipts.len() == 0);
            kani::cover!(true, "deficit refused");
        } else if !src_eq_dst && (d0 as u128 + amount as u128) > u64::MAX as u128 {
            assert!(matches!(res, Err(RuntimeError::Recoverable(PanicReason::BalanceOverflow))));
            assert!(get(&vm.storage, &dst, &ASSET) == d, "overflow panics, the destination never wraps");
            assert!(vm.receipts.len() == 0);
            kani::cover!(true, "destination overflow refused");
        } else {
            let new_entry = !src_eq_dst && d.is_none();
            let extra = if new_entry { 40u64.saturating_mul(per_byte) } else { 0 };
            // local conservation: what left the source arrived at the destination
            if src_eq_dst {
                assert!(get(&vm.storage, &SRC, &ASSET) == Some(s0));
            } else {
                assert!(get(&vm.storage, &SRC, &ASSET) == Some(s0 - amount));
                assert!(get(&vm.storage, &dst, &ASSET) == Some(d0 + amount));
            }
            if extra > exp[R_CGAS] {
                assert!(matches!(res, Err(RuntimeError::Recoverable(PanicReason::OutOfGas))));
                kani::cover!(true, "out of gas on the new-entry charge");
            } else {
                assert!(matches!(res, Ok(ExecuteState::Proceed)));
                exp[R_CGAS] -= extra; exp[R_GGAS] -= extra;
                exp[R_PC] = regs[R_PC] + 4;
                assert!(vm.registers[probe] == exp[probe]);
                assert!(vm.receipts.len() == 1);
                match &vm.receipts.as_ref()[0] {
                    fuel_tx::Receipt::Transfer { id, to, amount: a, asset_id, pc, is } => {
                        assert!(*id == SRC && *to == dst && *a == amount && *asset_id == ASSET);
                        assert!(*pc == regs[R_PC] && *is == regs[R_IS]);
                    }
                    _ => assert!(false, "transfer receipt expected"),
                }
                kani::cover!(new_entry, "transfer creating the destination entry");
                kani::cover!(!new_entry, "transfer to an existing entry");
            }
        }
    } else {
        assert!(get(&vm.storage, &SRC, &ASSET) == s && get(&vm.storage, &dst, &ASSET) == d);
        kani::cover!(true, "out of gas");
    }
    core::mem::forget(vm);
}
ah!(c27_tr_internal, { tr_case(false, true) });
ah!(c27_tr_internal_self, { tr_case(true, true) });
ah!(c30_tr_internal_unlisted, { tr_case(false, false) });

// --- BAL step -----------------------------------------------------------------------------------
fn bal_case(listed: bool) {
    let (st, s, _d, o1, o2) = any_storage(false);
    let gas = any_gas_costs();
    let cost = gas.bal;
    let mut regs = any_registers();
    assume_reg_inv(&regs);
    kani::assume(regs[R_HP] == VM_MAX_RAM && regs[R_SP] <= LS as Word);
    let ra: usize = kani::any();
    kani::assume(ra < 64 && ra != 0x11 && ra != 0x12);
    regs[0x11] = 96; regs[0x12] = 32; // asset id, contract id (= SRC)
    let probe: usize = kani::any();
    kani::assume(probe < 64);
    let mut vm = mk_vm_with(regs, tr_memory(&SRC, &DST), gas, st);
    if listed { vm.input_contracts.insert(SRC); }
    vm.input_contracts.insert(OTHER);
    let res = op::BAL::new(rid(ra), rid(0x11), rid(0x12)).execute(&mut vm);
    if let Some(mut exp) = charge(&regs, &vm.registers, &res, cost, probe) {
        if ra < VM_REGISTER_SYSTEM_COUNT {
            assert!(matches!(res, Err(RuntimeError::Recoverable(PanicReason::ReservedRegisterNotWritable))));
            assert!(vm.registers[probe] == exp[probe]);
        } else if !listed {
            assert!(matches!(res, Err(RuntimeError::Recoverable(PanicReason::ContractNotInInputs))));
            assert!(matches!(vm.panic_context, PanicContext::ContractId(c) if c == SRC));
            assert!(vm.registers[probe] == exp[probe], "no balance is revealed for an unlisted contract");
            kani::cover!(true, "unlisted contract refused");
        } else {
            assert!(matches!(res, Ok(ExecuteState::Proceed)));
            exp[ra] = s.unwrap_or(0);
            exp[R_PC] = regs[R_PC] + 4;
            assert!(vm.registers[probe] == exp[probe]);
            kani::cover!(s.is_some(), "balance read");
            kani::cover!(s.is_none(), "absent balance reads zero");
        }
    }
    assert!(get(&vm.storage, &SRC, &ASSET) == s && get(&vm.storage, &OTHER, &ASSET) == Some(o1));
    core::mem::forget(vm);
}
ah!(c30_bal_listed, { bal_case(true) });
ah!(c30_bal_unlisted, { bal_case(false) });

// --- PredicateStorage refuses every contract table ------------------------------------------------
ah!(c30_predicate_storage_refuses, {
    use crate::storage::predicate::{PredicateStorage, EmptyStorage};
    use crate::storage::{ContractsRawCode, ContractsState, ContractsStateKey, UploadedBytecodes};
    use fuel_storage::{StorageMutate, StorageRead, StorageSize, StorageWrite};
    let mut ps = PredicateStorage::new(EmptyStorage);
    let cid = ContractId::new(kani::any());
    let aid = AssetId::new(kani::any());
    let key = ContractsAssetKey::new(&cid, &aid);
    let skey = ContractsStateKey::new(&cid, &fuel_types::Bytes32::new(kani::any()));
    let mut buf = [0u8; 4];
    let off: usize = kani::any();
    // balances
    assert!(StorageInspect::<ContractsAssets>::get(&ps, &key).is_err());
    assert!(StorageInspect::<ContractsAssets>::contains_key(&ps, &key).is_err());
    assert!(StorageMutate::<ContractsAssets>::replace(&mut ps, &key, &kani::any()).is_err());
    assert!(StorageMutate::<ContractsAssets>::take(&mut ps, &key).is_err());
    // code
    assert!(StorageInspect::<ContractsRawCode>::get(&ps, &cid).is_err());
    assert!(StorageInspect::<ContractsRawCode>::contains_key(&ps, &cid).is_err());
    assert!(StorageSize::<ContractsRawCode>::size_of_value(&ps, &cid).is_err());
    assert!(StorageRead::<ContractsRawCode>::read_exact(&ps, &cid, off, &mut buf).is_err());
    assert!(StorageRead::<ContractsRawCode>::read_zerofill(&ps, &cid, off, &mut buf).is_err());
    assert!(StorageRead::<ContractsRawCode>::read_alloc(&ps, &cid).is_err());
    assert!(StorageWrite::<ContractsRawCode>::write_bytes(&mut ps, &cid, &buf).is_err());
    assert!(StorageWrite::<ContractsRawCode>::replace_bytes(&mut ps, &cid, &buf).is_err());
    assert!(StorageWrite::<ContractsRawCode>::take_bytes(&mut ps, &cid).is_err());
    // state
    assert!(StorageInspect::<ContractsState>::get(&ps, &skey).is_err());
    assert!(StorageInspect::<ContractsState>::contains_key(&ps, &skey).is_err());
    assert!(StorageSize::<ContractsState>::size_of_value(&ps, &skey).is_err());
    assert!(StorageRead::<ContractsState>::read_exact(&ps, &skey, off, &mut buf).is_err());
    assert!(StorageRead::<ContractsState>::read_zerofill(&ps, &skey, off, &mut buf).is_err());
    assert!(StorageRead::<ContractsState>::read_alloc(&ps, &skey).is_err());
    assert!(StorageWrite::<ContractsState>::write_bytes(&mut ps, &skey, &buf).is_err());
    assert!(StorageWrite::<ContractsState>::replace_bytes(&mut ps, &skey, &buf).is_err());
    assert!(StorageWrite::<ContractsState>::take_bytes(&mut ps, &skey).is_err());
    assert!(ps.contract_state_remove_range(&cid, &fuel_types::Bytes32::zeroed(), kani::any()).is_err());
    assert!(buf == [0u8; 4], "refused reads do not write the buffer");
    kani::cover!(true, "all contract-table methods refused");
});

// --- post-execution outputs: change = remaining balance (+ refund for the base asset), revert resets
//     to the initial balance (+ refund) and zeroes variable outputs ---------------------------------
use crate::checked_transaction::NonRetryableFreeBalances;
use crate::interpreter::{ExecutableTransaction, InitialBalances};
use fuel_tx::{field::Outputs, policies::{Policies, PolicyType}, Chargeable, Output, Transaction};
use fuel_types::Address;

struct Bal { base: Word, other: Word }
impl<'a> core::ops::Index<&'a AssetId> for Bal {
    type Output = Word;
    fn index(&self, a: &'a AssetId) -> &Word { if *a == ASSET { &self.base } else { &self.other } }
}

ah!(c27_update_outputs, {
    let revert: bool = kani::any();
    let used_gas: Word = kani::any();
    let (mf, tip): (Word, Word) = (kani::any(), kani::any());
    let mut pol = Policies::new();
    pol.set(PolicyType::MaxFee, Some(mf));
    pol.set(PolicyType::Tip, Some(tip));
    let (to1, to2) = (Address::new([1; 32]), Address::new([2; 32]));
    let (c0, v0, k0): (Word, Word, Word) = (kani::any(), kani::any(), kani::any());
    let mut tx = Transaction::script(kani::any(), Vec::new(), Vec::new(), pol, Vec::new(),
        alloc::vec![Output::change(to1, kani::any(), ASSET), Output::change(to2, kani::any(), ASSET2),
                    Output::variable(to1, v0, ASSET2), Output::coin(to2, k0, ASSET),
                    Output::contract(0, Default::default(), Default::default())], Vec::new());
    let (ib, io, rb, ro): (Word, Word, Word, Word) = (kani::any(), kani::any(), kani::any(), kani::any());
    let mut m = alloc::collections::BTreeMap::new();
    m.insert(ASSET, ib);
    m.insert(ASSET2, io);
    let initial = InitialBalances { non_retryable: NonRetryableFreeBalances(m), retryable: None };
    let bal = Bal { base: rb, other: ro };
    let gas_costs = GasCosts::default();
    let fee = FeeParameters::DEFAULT;
    // gas price 0: the refund arithmetic itself is C18's subject; here refund = fee limit - tip
    let refund = tx.refund_fee(&gas_costs, &fee, used_gas, 0);
    assert!(refund == mf.checked_sub(tip));
    let r = tx.update_outputs(revert, used_gas, &initial, &bal, &gas_costs, &fee, &ASSET, 0);
    match refund {
        None => { assert!(r.is_err()); kani::cover!(true, "uncomputable refund"); }
        Some(refund) => {
            let base_src = if revert { ib } else { rb };
            if (base_src as u128) + (refund as u128) > u64::MAX as u128 {
                assert!(r.is_err(), "overflowing change is an error, never a wrapped amount");
                kani::cover!(true, "change overflow");
            } else {
                assert!(r.is_ok());
                let o = tx.outputs();
                assert!(matches!(o[0], Output::Change { to, amount, asset_id } if to == to1 && asset_id == ASSET && amount == base_src + refund));
                assert!(matches!(o[1], Output::Change { to, amount, asset_id } if to == to2 && asset_id == ASSET2 && amount == (if revert { io } else { ro })));
                assert!(matches!(o[2], Output::Variable { to, amount, asset_id } if to == to1 && asset_id == ASSET2 && amount == (if revert { 0 } else { v0 })));
                assert!(matches!(o[3], Output::Coin { to, amount, asset_id } if to == to2 && asset_id == ASSET && amount == k0));
                assert!(o.len() == 5 && o[4].is_contract());
                kani::cover!(revert, "reverted outputs");
                kani::cover!(!revert, "successful outputs");
            }
        }
    }
    core::mem::forget(tx);
    core::mem::forget(initial);
});

// a variable output slot can be filled exactly once
ah!(c27_replace_variable_output, {
    let (a0, a1): (Word, Word) = (kani::any(), kani::any());
    let (to1, to2) = (Address::new([1; 32]), Address::new([2; 32]));
    let mut tx = Transaction::script(0, Vec::new(), Vec::new(), Policies::new(), Vec::new(),
        alloc::vec![Output::variable(Address::zeroed(), a0, AssetId::zeroed()), Output::coin(to1, a1, ASSET), Output::variable(to2, 0, ASSET2)], Vec::new());
    let idx: usize = kani::any();
    let amount: Word = kani::any();
    let is_var: bool = kani::any();
    let new = if is_var { Output::variable(to1, amount, ASSET) } else { Output::coin(to1, amount, ASSET) };
    let r = tx.replace_variable_output(idx, new);
    let o = tx.outputs();
    if !is_var {
        assert!(matches!(r, Err(crate::error::PanicOrBug::Panic(PanicReason::ExpectedOutputVariable))));
    } else if (idx == 0 && a0 == 0) || idx == 2 {
        assert!(r.is_ok());
        assert!(matches!(o[idx], Output::Variable { to, amount: a, asset_id } if to == to1 && a == amount && asset_id == ASSET));
        kani::cover!(true, "empty variable slot filled");
    } else {
        assert!(matches!(r, Err(crate::error::PanicOrBug::Panic(PanicReason::OutputNotFound))));
        kani::cover!(idx == 0, "already filled variable slot refused");
        kani::cover!(idx == 1, "non-variable slot refused");
        kani::cover!(idx > 2, "missing slot refused");
    }
    if r.is_err() {
        assert!(matches!(o[0], Output::Variable { amount, .. } if amount == a0));
        assert!(matches!(o[1], Output::Coin { amount, .. } if amount == a1));
    }
    core::mem::forget(tx);
});

// TR from a script (external) context: the input check comes first also there (empty free balances)
fn tr_external_case(listed: bool) {
    let (st, s, d, o1, o2) = any_storage(false);
    let gas = any_gas_costs();
    let cost = gas.tr;
    let mut regs = any_registers();
    assume_reg_inv(&regs);
    kani::assume(regs[R_HP] == VM_MAX_RAM && regs[R_FP] == 0 && regs[R_SP] <= LS as Word);
    let amount: Word = kani::any();
    regs[0x10] = 64; regs[0x11] = amount; regs[0x12] = 96;
    let probe: usize = kani::any();
    kani::assume(probe < 64);
    let mut vm = mk_vm_with(regs, tr_memory(&SRC, &DST), gas, st);
    vm.context = Context::Script { block_height: Default::default() };
    if listed { vm.input_contracts.insert(DST); }
    let res = op::TR::new(rid(0x10), rid(0x11), rid(0x12)).execute(&mut vm);
    if let Some(exp) = charge(&regs, &vm.registers, &res, cost, probe) {
        if !listed {
            assert!(matches!(res, Err(RuntimeError::Recoverable(PanicReason::ContractNotInInputs))));
            assert!(matches!(vm.panic_context, PanicContext::ContractId(c) if c == DST));
            kani::cover!(true, "unlisted destination refused from a script");
        } else if amount == 0 {
            assert!(matches!(res, Err(RuntimeError::Recoverable(PanicReason::TransferZeroCoins))));
        } else {
            // the script has no free balance of this asset
            assert!(matches!(res, Err(RuntimeError::Recoverable(PanicReason::NotEnoughBalance))));
            kani::cover!(true, "no free balance");
        }
        assert!(vm.registers[probe] == exp[probe]);
    }
    assert!(get(&vm.storage, &DST, &ASSET) == d && get(&vm.storage, &SRC, &ASSET) == s, "no contract balance is touched");
    core::mem::forget(vm);
}
ah!(c30_tr_external_listed, { tr_external_case(true) });
ah!(c30_tr_external_unlisted, { tr_external_case(false) });

// --- MINT / BURN in a contract context ------------------------------------------------------------
// asset id = H(contract id ‖ sub id): `Hasher::{chain, finalize}` are replaced by a logging stand-in and the
// specification computes the same digest from (contract, sub id) directly, so what is hashed and in which
// order is part of the check.  In a native replay the stubs are inert and the real function is the oracle.
static mut HLOG: [u8; 64] = [0; 64];
static mut HLEN: usize = 0;
pub(crate) fn chain_model<Bb: AsRef<[u8]>>(h: fuel_crypto::Hasher, data: Bb) -> fuel_crypto::Hasher {
    let d = data.as_ref();
    unsafe {
        assert!(HLEN + d.len() <= 64, "hash log capacity");
        let mut i = 0;
        while i < d.len() { HLOG[HLEN + i] = d[i]; i += 1; }
        HLEN += d.len();
    }
    h
}
fn toy_asset(contract: &[u8; 32], sub: &[u8; 32]) -> [u8; 32] {
    let mut o = [0u8; 32];
    let mut i = 0;
    while i < 32 { o[i] = contract[i].rotate_left(3) ^ sub[i].wrapping_add(i as u8) ^ 0x5A; i += 1; }
    o
}
pub(crate) fn finalize_model(_h: fuel_crypto::Hasher) -> fuel_types::Bytes32 {
    unsafe {
        assert!(HLEN == 64, "asset id hashes exactly contract id and sub id");
        let mut c = [0u8; 32];
        let mut s = [0u8; 32];
        let mut i = 0;
        while i < 32 { c[i] = HLOG[i]; s[i] = HLOG[32 + i]; i += 1; }
        HLEN = 0;
        fuel_types::Bytes32::new(toy_asset(&c, &s))
    }
}
#[cfg(not(verif_playback))]
fn expected_asset(contract: &ContractId, sub: &[u8; 32]) -> AssetId { AssetId::new(toy_asset(contract, sub)) }
#[cfg(verif_playback)]
fn expected_asset(contract: &ContractId, sub: &[u8; 32]) -> AssetId {
    use fuel_tx::ContractIdExt;
    contract.asset_id(&fuel_types::SubAssetId::new(*sub))
}

macro_rules! mh {
    ($name:ident, $body:block) => {
        #[kani::proof]
        #[kani::unwind(140)]
        #[kani::stub(crate::constraints::reg_key::split_registers, split_registers_model)]
        #[kani::stub(core::result::Result::expect, expect_model)]
        #[kani::stub(core::result::Result::unwrap, unwrap_model)]
        #[kani::stub(fuel_merkle::binary::hash::leaf_sum, toy_leaf)]
        #[kani::stub(fuel_merkle::binary::hash::node_sum, toy_node)]
        #[kani::stub(fuel_crypto::Hasher::chain, chain_model)]
        #[kani::stub(fuel_crypto::Hasher::finalize, finalize_model)]
        pub fn $name() $body
    };
}

fn mint_burn_case(mint: bool) {
    // memory: [32,64) current contract id (SRC, at $fp), [64,96) sub id (symbolic)
    let sub: [u8; 32] = kani::any();
    let mut stack: Vec<u8> = Vec::with_capacity(LS);
    let mut i = 0;
    while i < LS {
        let b = if i < 32 { 0 } else if i < 64 { SRC.as_ref()[i - 32] } else if i < 96 { sub[i - 64] } else { 0 };
        stack.push(b);
        i += 1;
    }
    let mem = MemoryInstance::verif_from_parts(stack, Vec::new(), MEM_SIZE);
    let asset = expected_asset(&SRC, &sub);
    let mut st = SlotStorage::new();
    let bal: Option<Word> = if kani::any() { Some(kani::any()) } else { None };
    if let Some(v) = bal { st.contract_asset_id_balance_insert(&SRC, &asset, v).unwrap(); }
    let o1: Word = kani::any();
    st.contract_asset_id_balance_insert(&OTHER, &ASSET, o1).unwrap();
    let gas = any_gas_costs();
    let (cost, per_byte) = (if mint { gas.mint } else { gas.burn }, gas.new_storage_per_byte);
    let mut regs = any_registers();
    assume_reg_inv(&regs);
    kani::assume(regs[R_HP] == VM_MAX_RAM && regs[R_FP] == 32 && regs[R_SSP] >= 128 && regs[R_SP] <= LS as Word);
    let amount: Word = kani::any();
    regs[0x10] = amount; regs[0x11] = 64;
    let probe: usize = kani::any();
    kani::assume(probe < 64);
    let mut vm = mk_vm_with(regs, mem, gas, st);
    let internal: bool = kani::any();
    vm.context = if internal { Context::Call { block_height: Default::default() } } else { Context::Script { block_height: Default::default() } };
    unsafe { HLEN = 0; }
    let res = if mint { op::MINT::new(rid(0x10), rid(0x11)).execute(&mut vm) } else { op::BURN::new(rid(0x10), rid(0x11)).execute(&mut vm) };
    let b0 = bal.unwrap_or(0);
    assert!(get(&vm.storage, &OTHER, &ASSET) == Some(o1), "bystander balances never change");
    if let Some(mut exp) = charge(&regs, &vm.registers, &res, cost, probe) {
        if !internal {
            assert!(matches!(res, Err(RuntimeError::Recoverable(PanicReason::ExpectedInternalContext))));
            assert!(get(&vm.storage, &SRC, &asset) == bal && vm.receipts.len() == 0);
            kani::cover!(true, "minting / burning outside a contract refused");
        } else if mint && (b0 as u128 + amount as u128) > u64::MAX as u128 {
            assert!(matches!(res, Err(RuntimeError::Recoverable(PanicReason::BalanceOverflow))));
            assert!(get(&vm.storage, &SRC, &asset) == bal, "overflow panics, the balance never wraps");
            kani::cover!(true, "mint overflow refused");
        } else if !mint && amount > b0 {
            assert!(matches!(res, Err(RuntimeError::Recoverable(PanicReason::NotEnoughBalance))));
            assert!(get(&vm.storage, &SRC, &asset) == bal, "deficit panics, the balance never wraps");
            kani::cover!(true, "burning more than the balance refused");
        } else {
            let newb = if mint { b0 + amount } else { b0 - amount };
            assert!(get(&vm.storage, &SRC, &asset) == Some(newb), "the contract's balance of H(contract, sub id) moves by exactly the amount");
            let extra = if mint && bal.is_none() { 40u64.saturating_mul(per_byte) } else { 0 };
            if extra > exp[R_CGAS] {
                assert!(matches!(res, Err(RuntimeError::Recoverable(PanicReason::OutOfGas))));
            } else {
                assert!(matches!(res, Ok(ExecuteState::Proceed)));
                exp[R_CGAS] -= extra; exp[R_GGAS] -= extra;
                exp[R_PC] = regs[R_PC] + 4;
                assert!(vm.registers[probe] == exp[probe]);
                assert!(vm.receipts.len() == 1);
                match &vm.receipts.as_ref()[0] {
                    fuel_tx::Receipt::Mint { sub_id, contract_id, val, pc, is } if mint => {
                        assert!(**sub_id == sub && *contract_id == SRC && *val == amount && *pc == regs[R_PC] && *is == regs[R_IS]);
                    }
                    fuel_tx::Receipt::Burn { sub_id, contract_id, val, pc, is } if !mint => {
                        assert!(**sub_id == sub && *contract_id == SRC && *val == amount && *pc == regs[R_PC] && *is == regs[R_IS]);
                    }
                    _ => assert!(false, "mint / burn receipt expected"),
                }
                kani::cover!(mint && bal.is_none(), "mint creating the balance entry");
                kani::cover!(!mint, "burn");
            }
        }
    }
    core::mem::forget(vm);
}
mh!(c27_mint, { mint_burn_case(true) });
mh!(c27_burn, { mint_burn_case(false) });

// --- CSIZ: the size of a contract's code is revealed only for listed contracts ----------------------
fn csiz_case(listed: bool) {
    let mut st = SlotStorage::new();
    let exists: bool = kani::any();
    let code: [u8; 3] = kani::any();
    if exists { st.code[0] = Some((DST, code.to_vec())); }
    st.code[1] = Some((OTHER, alloc::vec![1u8, 2, 3, 4, 5]));
    let mut gas = any_gas_costs();
    let (base, per_unit): (Word, Word) = (kani::any(), kani::any());
    gas.csiz = DependentCost::HeavyOperation { base, gas_per_unit: per_unit };
    let mut regs = any_registers();
    assume_reg_inv(&regs);
    kani::assume(regs[R_HP] == VM_MAX_RAM && regs[R_SP] <= LS as Word);
    let ra: usize = kani::any();
    kani::assume(ra < 64 && ra != 0x11);
    regs[0x11] = 64; // contract id (= DST) in memory
    let probe: usize = kani::any();
    kani::assume(probe < 64);
    let mut vm = mk_vm_with(regs, tr_memory(&SRC, &DST), gas, st);
    if listed { vm.input_contracts.insert(DST); }
    vm.input_contracts.insert(OTHER);
    let res = op::CSIZ::new(rid(ra), rid(0x11)).execute(&mut vm);
    if let Some(mut exp) = charge(&regs, &vm.registers, &res, base, probe) {
        if ra < VM_REGISTER_SYSTEM_COUNT {
            assert!(matches!(res, Err(RuntimeError::Recoverable(PanicReason::ReservedRegisterNotWritable))));
            assert!(vm.registers[probe] == exp[probe]);
        } else if !listed {
            assert!(matches!(res, Err(RuntimeError::Recoverable(PanicReason::ContractNotInInputs))));
            assert!(matches!(vm.panic_context, PanicContext::ContractId(c) if c == DST));
            assert!(vm.registers[probe] == exp[probe], "nothing about an unlisted contract is revealed");
            kani::cover!(true, "unlisted contract refused");
        } else if !exists {
            assert!(matches!(res, Err(RuntimeError::Recoverable(PanicReason::ContractNotFound))));
            assert!(vm.registers[probe] == exp[probe]);
            kani::cover!(true, "missing contract");
        } else {
            let extra = 3u64.saturating_mul(per_unit);
            if extra > exp[R_CGAS] {
                assert!(matches!(res, Err(RuntimeError::Recoverable(PanicReason::OutOfGas))));
            } else {
                assert!(matches!(res, Ok(ExecuteState::Proceed)));
                exp[R_CGAS] -= extra; exp[R_GGAS] -= extra;
                exp[ra] = 3;
                exp[R_PC] = regs[R_PC] + 4;
                assert!(vm.registers[probe] == exp[probe]);
                kani::cover!(true, "code size returned");
            }
        }
    }
    core::mem::forget(vm);
}
ah!(c30_csiz_listed, { csiz_case(true) });
ah!(c30_csiz_unlisted, { csiz_case(false) });

// --- CROO / CCP: an unlisted contract is refused before anything about its code is read or written ---
// The contract exists in storage (3 bytes of code), so only the input list stands between the instruction
// and its code.  Destination address, offset, length and every other register are symbolic.
fn tr_byte(i: usize) -> u8 {
    if i < 32 { 0 } else if i < 64 { SRC.as_ref()[i - 32] } else if i < 96 { DST.as_ref()[i - 64] } else { ASSET.as_ref()[i - 96] }
}
fn code_unlisted_case(ccp: bool) {
    let mut st = SlotStorage::new();
    let code: [u8; 3] = kani::any();
    st.code[0] = Some((DST, code.to_vec()));
    st.code[1] = Some((OTHER, alloc::vec![1u8, 2, 3, 4, 5]));
    let mut gas = any_gas_costs();
    let (base, per_unit): (Word, Word) = (kani::any(), kani::any());
    if ccp { gas.ccp = DependentCost::HeavyOperation { base, gas_per_unit: per_unit }; }
    else { gas.croo = DependentCost::HeavyOperation { base, gas_per_unit: per_unit }; }
    let mut regs = any_registers();
    assume_reg_inv(&regs);
    kani::assume(regs[R_HP] == VM_MAX_RAM && regs[R_SP] <= LS as Word);
    regs[0x11] = 64; // contract id (= DST) in memory
    let probe: usize = kani::any();
    kani::assume(probe < 64);
    let mprobe: usize = kani::any();
    kani::assume(mprobe < LS);
    let mut vm = mk_vm_with(regs, tr_memory(&SRC, &DST), gas, st);
    vm.input_contracts.insert(SRC);
    vm.input_contracts.insert(OTHER);
    let res = if ccp { op::CCP::new(rid(0x10), rid(0x11), rid(0x12), rid(0x13)).execute(&mut vm) }
              else { op::CROO::new(rid(0x10), rid(0x11)).execute(&mut vm) };
    if let Some(exp) = charge(&regs, &vm.registers, &res, base, probe) {
        assert!(res.is_err(), "an unlisted contract is never served");
        assert!(vm.registers[probe] == exp[probe], "only the base cost is charged; nothing else moves");
        assert!(vm.memory.verif_flat(mprobe) == Some(tr_byte(mprobe)), "no byte of memory is written");
        if matches!(res, Err(RuntimeError::Recoverable(PanicReason::ContractNotInInputs))) {
            assert!(matches!(vm.panic_context, PanicContext::ContractId(c) if c == DST));
            kani::cover!(true, "unlisted contract refused");
        }
        if !ccp && regs[0x10] <= (LS - 32) as Word {
            assert!(matches!(res, Err(RuntimeError::Recoverable(PanicReason::ContractNotInInputs))));
        }
        if ccp && regs[R_SSP] <= regs[0x10] && regs[0x10] < regs[R_SP] && regs[0x13] <= regs[R_SP] - regs[0x10] {
            assert!(matches!(res, Err(RuntimeError::Recoverable(PanicReason::ContractNotInInputs))));
        }
    }
    core::mem::forget(vm);
}
ah!(c30_croo_unlisted, { code_unlisted_case(false) });
ah!(c30_ccp_unlisted, { code_unlisted_case(true) });

// --- LDC (mode 0, contract code): an unlisted contract is never loaded ------------------------------
ah!(c30_ldc_unlisted, {
    let mut st = SlotStorage::new();
    let code: [u8; 3] = kani::any();
    st.code[0] = Some((DST, code.to_vec()));
    st.code[1] = Some((OTHER, alloc::vec![1u8, 2, 3, 4, 5]));
    let mut gas = any_gas_costs();
    let (base, per_unit): (Word, Word) = (kani::any(), kani::any());
    gas.ldc = DependentCost::HeavyOperation { base, gas_per_unit: per_unit };
    let mut regs = any_registers();
    assume_reg_inv(&regs);
    kani::assume(regs[R_HP] == VM_MAX_RAM && regs[R_SP] <= LS as Word);
    regs[0x11] = 64; // contract id (= DST) in memory
    let probe: usize = kani::any();
    kani::assume(probe < 64);
    let mprobe: usize = kani::any();
    kani::assume(mprobe < LS);
    let mut vm = mk_vm_with(regs, tr_memory(&SRC, &DST), gas, st);
    vm.input_contracts.insert(SRC);
    vm.input_contracts.insert(OTHER);
    let res = op::LDC::new(rid(0x11), rid(0x12), rid(0x13), fuel_asm::Imm06::new(0)).execute(&mut vm);
    if let Some(exp) = charge(&regs, &vm.registers, &res, base, probe) {
        assert!(res.is_err(), "an unlisted contract is never loaded");
        assert!(vm.registers[probe] == exp[probe], "only the base cost is charged; $ssp, $sp, $pc and the rest stay");
        assert!(vm.memory.verif_flat(mprobe) == Some(tr_byte(mprobe)), "no byte of memory is written");
        if matches!(res, Err(RuntimeError::Recoverable(PanicReason::ContractNotInInputs))) {
            assert!(matches!(vm.panic_context, PanicContext::ContractId(c) if c == DST));
            kani::cover!(true, "unlisted contract refused");
        }
    }
    core::mem::forget(vm);
});
