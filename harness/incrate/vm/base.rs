// Shared state model for one-step harnesses (DESIGN §4).
use super::*;

pub(crate) type Vm = Interpreter<MemoryInstance, MemoryStorage, Script, NotSupportedEcal, Normal>;

/// K1: Kani 0.68 ICEs on the slice pattern in `split_registers`; this model hands out the same
/// 16 + 48 references with `split_at_mut`.  Data-independent; equivalence is settled by the
/// native address-comparison test `tests::split_registers_model_equiv` run by the driver.
pub(crate) fn split_registers_model(
    registers: &mut [Word; VM_REGISTER_COUNT],
) -> (SystemRegisters<'_>, ProgramRegisters<'_>) {
    let (sys, rest) = registers.split_at_mut(VM_REGISTER_SYSTEM_COUNT);
    let mut it = sys.iter_mut();
    let r = SystemRegisters {
        zero: RegMut::new(it.next().unwrap()),
        one: RegMut::new(it.next().unwrap()),
        of: RegMut::new(it.next().unwrap()),
        pc: RegMut::new(it.next().unwrap()),
        ssp: RegMut::new(it.next().unwrap()),
        sp: RegMut::new(it.next().unwrap()),
        fp: RegMut::new(it.next().unwrap()),
        hp: RegMut::new(it.next().unwrap()),
        err: RegMut::new(it.next().unwrap()),
        ggas: RegMut::new(it.next().unwrap()),
        cgas: RegMut::new(it.next().unwrap()),
        bal: RegMut::new(it.next().unwrap()),
        is: RegMut::new(it.next().unwrap()),
        ret: RegMut::new(it.next().unwrap()),
        retl: RegMut::new(it.next().unwrap()),
        flag: RegMut::new(it.next().unwrap()),
    };
    let rest: &mut [Word; VM_REGISTER_PROGRAM_COUNT] = rest.try_into().unwrap();
    (r, ProgramRegisters(rest))
}

/// K2: non-formatting models of Result::{expect, unwrap}.
pub(crate) fn expect_model<T, E: core::fmt::Debug>(r: Result<T, E>, _msg: &str) -> T {
    match r { Ok(t) => t, Err(_) => panic!("Result::expect on Err") }
}
pub(crate) fn unwrap_model<T, E: core::fmt::Debug>(r: Result<T, E>) -> T {
    match r { Ok(t) => t, Err(_) => panic!("Result::unwrap on Err") }
}

fn any_dep() -> DependentCost {
    let base: Word = kani::any();
    let x: Word = kani::any();
    if kani::any() {
        kani::assume(x >= 1); // "This must be nonzero" (documented contract of units_per_gas)
        DependentCost::LightOperation { base, units_per_gas: x }
    } else {
        DependentCost::HeavyOperation { base, gas_per_unit: x }
    }
}

/// A fully symbolic gas schedule: every opcode cost is a free variable, so a handler that
/// charges the wrong table entry is distinguishable from the right one.
pub(crate) fn any_gas_costs() -> GasCostsValuesV7 {
    GasCostsValuesV7 {
        add: kani::any(), addi: kani::any(), and: kani::any(), andi: kani::any(), bal: kani::any(),
        bhei: kani::any(), bhsh: kani::any(), burn: kani::any(), cb: kani::any(), cfsi: kani::any(),
        div: kani::any(), divi: kani::any(), eck1: kani::any(), ecr1: kani::any(), eq: kani::any(),
        exp: kani::any(), expi: kani::any(), flag: kani::any(), gm: kani::any(), gt: kani::any(),
        gtf: kani::any(), ji: kani::any(), jmp: kani::any(), jne: kani::any(), jnei: kani::any(),
        jnzi: kani::any(), jmpf: kani::any(), jmpb: kani::any(), jnzf: kani::any(), jnzb: kani::any(),
        jnef: kani::any(), jneb: kani::any(), lb: kani::any(), log: kani::any(), lt: kani::any(),
        lw: kani::any(), mint: kani::any(), mlog: kani::any(), mod_op: kani::any(), modi: kani::any(),
        move_op: kani::any(), movi: kani::any(), mroo: kani::any(), mul: kani::any(), muli: kani::any(),
        mldv: kani::any(), niop: kani::any(), noop: kani::any(), not: kani::any(), or: kani::any(),
        ori: kani::any(), poph: kani::any(), popl: kani::any(), pshh: kani::any(), pshl: kani::any(),
        ret: kani::any(), rvrt: kani::any(), sb: kani::any(), sll: kani::any(), slli: kani::any(),
        srl: kani::any(), srli: kani::any(), sub: kani::any(), subi: kani::any(), sw: kani::any(),
        time: kani::any(), tr: kani::any(), tro: kani::any(), wdcm: kani::any(), wqcm: kani::any(),
        wdop: kani::any(), wqop: kani::any(), wdml: kani::any(), wqml: kani::any(), wddv: kani::any(),
        wqdv: kani::any(), wdmd: kani::any(), wqmd: kani::any(), wdam: kani::any(), wqam: kani::any(),
        wdmm: kani::any(), wqmm: kani::any(), xor: kani::any(), xori: kani::any(), ecop: kani::any(),
        aloc: any_dep(), bsiz: any_dep(), bldd: any_dep(), cfe: any_dep(), cfei: any_dep(),
        call: any_dep(), ccp: any_dep(), croo: any_dep(), csiz: any_dep(), ed19: any_dep(),
        k256: any_dep(), ldc: any_dep(), logd: any_dep(), mcl: any_dep(), mcli: any_dep(),
        mcp: any_dep(), mcpi: any_dep(), meq: any_dep(), retd: any_dep(), s256: any_dep(),
        smo: any_dep(), epar: any_dep(),
        storage_read_cold: any_dep(), storage_read_hot: any_dep(), storage_write: any_dep(),
        storage_clear: any_dep(), contract_root: any_dep(), state_root: any_dep(),
        new_storage_per_byte: kani::any(), vm_initialization: any_dep(),
    }
}

pub(crate) fn params_with(gas: GasCostsValuesV7) -> InterpreterParams {
    InterpreterParams {
        gas_price: 0,
        gas_costs: GasCosts::new(GasCostsValues::V7(gas)),
        max_inputs: 255,
        contract_max_size: 100 * 1024,
        tx_offset: 10368,
        max_message_data_length: 1024 * 1024,
        max_storage_slot_length: 1024,
        chain_id: Default::default(),
        fee_params: FeeParameters::DEFAULT,
        base_asset_id: Default::default(),
    }
}

/// Registers: all 64 symbolic, $zero = 0, $one = 1.
pub(crate) fn any_registers() -> [Word; VM_REGISTER_COUNT] {
    let mut r: [Word; VM_REGISTER_COUNT] = kani::any();
    r[RegId::ZERO.to_u8() as usize] = 0;
    r[RegId::ONE.to_u8() as usize] = 1;
    r
}

pub(crate) const R_OF: usize = 0x02;
pub(crate) const R_PC: usize = 0x03;
pub(crate) const R_SSP: usize = 0x04;
pub(crate) const R_SP: usize = 0x05;
pub(crate) const R_FP: usize = 0x06;
pub(crate) const R_HP: usize = 0x07;
pub(crate) const R_ERR: usize = 0x08;
pub(crate) const R_GGAS: usize = 0x09;
pub(crate) const R_CGAS: usize = 0x0a;
pub(crate) const R_BAL: usize = 0x0b;
pub(crate) const R_IS: usize = 0x0c;
pub(crate) const R_RET: usize = 0x0d;
pub(crate) const R_RETL: usize = 0x0e;
pub(crate) const R_FLAG: usize = 0x0f;

/// Register part of VMINV (DESIGN §4).
pub(crate) fn assume_reg_inv(r: &[Word; VM_REGISTER_COUNT]) {
    kani::assume(r[R_CGAS] <= r[R_GGAS]);
    kani::assume(r[R_IS] <= r[R_SSP] && r[R_SSP] <= r[R_SP] && r[R_SP] <= r[R_HP] && r[R_HP] <= VM_MAX_RAM);
    kani::assume(r[R_FP] <= r[R_SSP]);
    kani::assume(r[R_PC] % 4 == 0 && r[R_IS] <= r[R_PC] && r[R_PC] < VM_MAX_RAM);
}

/// A VM with the given registers, memory and gas schedule; everything else default.
pub(crate) fn mk_vm(registers: [Word; VM_REGISTER_COUNT], memory: MemoryInstance, gas: GasCostsValuesV7) -> Vm {
    mk_vm_with(registers, memory, gas, MemoryStorage::new(Default::default(), ContractId::zeroed()))
}

/// The same with a caller-supplied storage back end.
pub(crate) fn mk_vm_with<S>(registers: [Word; VM_REGISTER_COUNT], memory: MemoryInstance, gas: GasCostsValuesV7, storage: S)
    -> Interpreter<MemoryInstance, S, Script, NotSupportedEcal, Normal> {
    mk_vm_tx(registers, memory, gas, storage, Default::default())
}

/// The same for any transaction kind.
pub(crate) fn mk_vm_tx<S, Tx>(registers: [Word; VM_REGISTER_COUNT], memory: MemoryInstance, gas: GasCostsValuesV7, storage: S, tx: Tx)
    -> Interpreter<MemoryInstance, S, Tx, NotSupportedEcal, Normal> {
    Interpreter {
        registers,
        memory,
        frames: Vec::new(),
        receipts: Default::default(),
        tx,
        initial_balances: Default::default(),
        input_contracts: Default::default(),
        input_contracts_index_to_output_index: Default::default(),
        storage,
        debugger: Debugger::default(),
        context: Context::default(),
        balances: Default::default(),
        interpreter_params: params_with(gas),
        panic_context: PanicContext::None,
        ecal_state: NotSupportedEcal,
        verifier: Default::default(),
        owner_ptr: None,
        storage_slot_cache: Default::default(),
    }
}

/// What a successful/failed step must look like on the register file, given the gas cost.
/// Returns false if any clause is violated; `probe` is a symbolic register index.
pub(crate) enum Spec {
    /// panic with this reason, non-gas registers unchanged
    Panic(PanicReason),
    /// `ra := value`, `$of := of`, `$err := err`, `$pc += 4`
    Write { value: Word, of: Word, err: Word },
}

/// Full post-condition of a register-only instruction step (gas + result + frame condition).
pub(crate) fn check_alu_step<E>(
    pre: &[Word; VM_REGISTER_COUNT],
    post: &[Word; VM_REGISTER_COUNT],
    result: &Result<ExecuteState, RuntimeError<E>>,
    cost: Word,
    ra: usize,
    spec: Spec,
    probe: usize,
) -> u8 {
    let (cg, gg) = (pre[R_CGAS], pre[R_GGAS]);
    let mut exp = *pre;
    if cost > cg {
        // out of gas: context gas zeroed, global gas reduced by what was left
        assert!(matches!(result, Err(RuntimeError::Recoverable(PanicReason::OutOfGas))));
        exp[R_CGAS] = 0;
        exp[R_GGAS] = gg - cg;
        assert!(post[probe] == exp[probe]);
        return 0
    }
    exp[R_CGAS] = cg - cost;
    exp[R_GGAS] = gg - cost;
    if ra < VM_REGISTER_SYSTEM_COUNT {
        assert!(matches!(result, Err(RuntimeError::Recoverable(PanicReason::ReservedRegisterNotWritable))));
        assert!(post[probe] == exp[probe]);
        return 1
    }
    match spec {
        Spec::Panic(reason) => {
            match result {
                Err(RuntimeError::Recoverable(r)) => assert!(*r == reason),
                _ => assert!(false, "expected a panic"),
            }
            assert!(post[probe] == exp[probe]);
            assert!(post[R_CGAS] <= post[R_GGAS] && post[R_GGAS] <= pre[R_GGAS]);
            2
        }
        Spec::Write { value, of, err } => {
            assert!(matches!(result, Ok(ExecuteState::Proceed)));
            exp[R_OF] = of;
            exp[R_ERR] = err;
            exp[R_PC] = pre[R_PC] + 4;
            exp[ra] = value;
            assert!(post[probe] == exp[probe]);
            // invariants re-established
            assert!(post[R_CGAS] <= post[R_GGAS] && post[R_GGAS] <= pre[R_GGAS]);
            3
        }
    }
}

pub(crate) fn flag_wrapping(flag: Word) -> bool { flag & 0x02 != 0 }
pub(crate) fn flag_unsafemath(flag: Word) -> bool { flag & 0x01 != 0 }
