// C33 — contract storage behaves like a key-value map: the slot kernel every storage instruction
// is built on (storage_read_slot / storage_write_slot), with the in-transaction read cache.
use super::*;
use super::c21_alu::any_in;
use crate::storage::{ContractsState, ContractsStateKey};
use fuel_storage::{StorageRead, StorageWrite};
use fuel_types::Bytes32;

macro_rules! kh {
    ($name:ident, $body:block) => {
        #[kani::proof]
        #[kani::unwind(20)]
        #[kani::stub(crate::constraints::reg_key::split_registers, split_registers_model)]
        #[kani::stub(core::result::Result::expect, expect_model)]
        #[kani::stub(core::result::Result::unwrap, unwrap_model)]
        pub fn $name() $body
    };
}
fn cid() -> ContractId { ContractId::from([1u8; 32]) }
fn key() -> Bytes32 { Bytes32::from([2u8; 32]) }

/// VM whose storage holds the slot (cid, key) = `old` if `present`; the read cache is either empty
/// or coherent-and-warm for that slot (symbolic choice).
fn vm_with_slot(i: &super::c21_alu::In, present: bool, old: [u8; 4], warm: bool) -> Vm {
    let mut vm = mk_vm(i.regs, MemoryInstance::new(), i.gas.clone());
    if present {
        <MemoryStorage as StorageWrite<ContractsState>>::write_bytes(&mut vm.storage, &ContractsStateKey::new(&cid(), &key()), &old).unwrap();
    }
    if warm {
        vm.storage_slot_cache.insert((cid(), key()), if present { Some(old.to_vec()) } else { None });
    }
    vm
}

// read: the value handed to the instruction body is the map's value (zero-length "absent" when the
// slot does not exist) whether or not the cache is warm; only the gas differs (hot vs cold entry);
// afterwards the cache is coherent.
kh!(c33_read_slot_cache_transparent, {
    let i = any_in();
    let (present, warm): (bool, bool) = (kani::any(), kani::any());
    let old: [u8; 4] = kani::any();
    let mut vm = vm_with_slot(&i, present, old, warm);
    let r = vm.storage_read_slot(cid(), key(), |_m, v| match v {
        Some(d) => (true, d.len(), if d.len() == 4 { [d[0], d[1], d[2], d[3]] } else { [0u8; 4] }),
        None => (false, 0, [0u8; 4]),
    });
    let units: Word = if present { 4 } else { 0 };
    let cost = if warm { i.gas.storage_read_hot.resolve(units) } else { i.gas.storage_read_cold.resolve(units) };
    match r {
        Ok((p, len, bytes)) => {
            assert!(cost <= i.regs[R_CGAS]);
            assert!(p == present);
            if present { assert!(len == 4 && bytes == old); }
            assert!(vm.registers[R_CGAS] == i.regs[R_CGAS] - cost && vm.registers[R_GGAS] == i.regs[R_GGAS] - cost);
            // cache coherent afterwards
            match vm.storage_slot_cache.get(&(cid(), key())) {
                Some(Some(d)) => assert!(present && d.len() == 4 && d[0] == old[0] && d[3] == old[3]),
                Some(None) => assert!(!present),
                None => assert!(false, "read must populate the cache"),
            }
            kani::cover!(present && warm, "hot read of an existing slot");
            kani::cover!(!present && !warm, "cold read of an absent slot");
        }
        Err(RuntimeError::Recoverable(PanicReason::OutOfGas)) => { assert!(cost > i.regs[R_CGAS]); kani::cover!(true, "out of gas"); }
        Err(_) => assert!(false, "unexpected error"),
    }
    core::mem::forget(vm);
});

// write: reflected in persistent storage exactly and in the cache; refused beyond the slot length
// limit; charged storage_write(len) + new_storage_per_byte * (len - old_len)^+
kh!(c33_write_slot, {
    let i = any_in();
    let (present, warm): (bool, bool) = (kani::any(), kani::any());
    let old: [u8; 4] = kani::any();
    let new: [u8; 3] = kani::any();
    let mut vm = vm_with_slot(&i, present, old, warm);
    let too_long: bool = kani::any();
    vm.interpreter_params.max_storage_slot_length = if too_long { 2 } else { 1024 };
    let r = vm.storage_write_slot(cid(), key(), new.to_vec());
    let stored = <MemoryStorage as StorageRead<ContractsState>>::read_alloc(&vm.storage, &ContractsStateKey::new(&cid(), &key())).unwrap();
    if too_long {
        assert!(matches!(r, Err(RuntimeError::Recoverable(PanicReason::StorageOutOfBounds))));
        match &stored { Some(d) => assert!(present && d.len() == 4 && d[0] == old[0] && d[3] == old[3]), None => assert!(!present) }
        kani::cover!(true, "oversized value refused, storage unchanged");
    } else {
        let old_len: Word = if present { 4 } else { 0 };
        let c1 = i.gas.storage_write.resolve(3);
        let c2 = i.gas.new_storage_per_byte.saturating_mul(3u64.saturating_sub(old_len));
        match r {
            Ok(()) => {
                match &stored { Some(d) => assert!(d.len() == 3 && d[0] == new[0] && d[1] == new[1] && d[2] == new[2]), None => assert!(false) }
                match vm.storage_slot_cache.get(&(cid(), key())) { Some(Some(d)) => assert!(d.len() == 3 && d[0] == new[0] && d[2] == new[2]), _ => assert!(false, "cache must hold the new value") }
                assert!(c1 <= i.regs[R_CGAS] && c2 <= i.regs[R_CGAS] - c1);
                assert!(vm.registers[R_GGAS] == i.regs[R_GGAS] - c1 - c2 && vm.registers[R_CGAS] == i.regs[R_CGAS] - c1 - c2);
                kani::cover!(!present, "new slot created (new-storage charge)");
                kani::cover!(present, "existing slot overwritten with a shorter value");
            }
            Err(RuntimeError::Recoverable(PanicReason::OutOfGas)) => { assert!(c1 > i.regs[R_CGAS] || c2 > i.regs[R_CGAS] - c1); }
            Err(_) => assert!(false, "unexpected error"),
        }
    }
    core::mem::forget(stored);
    core::mem::forget(vm);
});
