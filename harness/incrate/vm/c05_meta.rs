// C05 — in-VM introspection: the GM instruction (all 2^18 immediates, every context) and the value
// selectors of GTF on a small Script.  The specification is written from the instruction-set
// document (selector numbers are literals here, NOT the GMArgs / GTFArgs enums).
use super::*;
use super::c21_alu::charge;
use crate::call::CallFrame;
use crate::predicate::RuntimePredicate;
use fuel_tx::{field::{Inputs, Outputs, Witnesses, ScriptGasLimit}, policies::{Policies, PolicyType}, Input, Output, Transaction, TxPointer, UtxoId, Witness};
use fuel_types::{Address, AssetId, BlockHeight, Bytes32, ChainId, canonical::Serialize};

fn rid(i: usize) -> RegId { RegId::new(i as u8) }

macro_rules! gh {
    ($name:ident, $body:block) => {
        #[kani::proof]
        #[kani::unwind(70)]
        #[kani::stub(crate::constraints::reg_key::split_registers, split_registers_model)]
        #[kani::stub(core::result::Result::expect, expect_model)]
        #[kani::stub(core::result::Result::unwrap, unwrap_model)]
        pub fn $name() $body
    };
}

#[derive(Clone, Copy, PartialEq, Eq)]
enum Ctx { Script, Call, PredVerify, PredEstimate }

fn gm_case(ctx: Ctx, has_frame: bool) {
    let mut regs = any_registers();
    assume_reg_inv(&regs);
    let gas = any_gas_costs();
    let cost = gas.gm;
    let ra: usize = kani::any();
    kani::assume(ra < 64);
    let imm: u32 = kani::any();
    kani::assume(imm < (1 << 18));
    let probe: usize = kani::any();
    kani::assume(probe < 64);
    let mut vm = mk_vm(regs, MemoryInstance::new(), gas);
    let chain: u64 = kani::any();
    let price: u64 = kani::any();
    let tx_offset: usize = kani::any();
    kani::assume(tx_offset >= 8 && tx_offset < MEM_SIZE);
    vm.interpreter_params.chain_id = ChainId::new(chain);
    vm.interpreter_params.gas_price = price;
    vm.interpreter_params.tx_offset = tx_offset;
    let owner: Option<Word> = if kani::any() { Some(kani::any()) } else { None };
    vm.owner_ptr = owner;
    // a runtime predicate for input 0 or 1 of a two-predicate transaction (RuntimePredicate has no raw
    // constructor); only built in the predicate contexts
    // (a harness constant: a symbolic index turns `inputs().iter().take(idx)` into a loop unrolled to the global bound)
    let pred_idx: usize = if ctx == Ctx::PredEstimate { 1 } else { 0 };
    let mk_rp = || {
        let mk = || Input::coin_predicate(UtxoId::default(), Address::zeroed(), 0, AssetId::zeroed(), TxPointer::default(), 0, alloc::vec![0u8; 4], Vec::new());
        let ptx = Transaction::script(0, Vec::new(), Vec::new(), Policies::new(), alloc::vec![mk(), mk()], Vec::new(), Vec::new());
        let rp = RuntimePredicate::from_tx(&ptx, 1000, pred_idx).unwrap();
        core::mem::forget(ptx);
        rp
    };
    let saved_fp: Word = kani::any();
    match ctx {
        Ctx::Script => vm.context = Context::Script { block_height: Default::default() },
        Ctx::Call => vm.context = Context::Call { block_height: Default::default() },
        Ctx::PredVerify => vm.context = Context::PredicateVerification { program: mk_rp() },
        Ctx::PredEstimate => vm.context = Context::PredicateEstimation { program: mk_rp() },
    }
    if has_frame {
        let mut saved: [Word; VM_REGISTER_COUNT] = [0; VM_REGISTER_COUNT];
        saved[R_FP] = saved_fp;
        vm.frames.push(CallFrame::new(ContractId::zeroed(), AssetId::zeroed(), saved, 0, kani::any(), kani::any()).unwrap());
    }
    let res = op::GM::new(rid(ra), Imm18::new(imm)).execute(&mut vm);
    if let Some(mut exp) = charge(&regs, &vm.registers, &res, cost, probe) {
        // specification table (fuel-specs, GM): selector -> value | panic
        let internal = ctx == Ctx::Call;
        let parent: Option<Word> = if internal && has_frame { Some(saved_fp) } else { None };
        let spec: Result<Word, PanicReason> = match imm {
            0x01 => match parent { Some(p) => Ok((p == 0) as Word), None => Err(PanicReason::ExpectedInternalContext) },
            0x02 => match parent { Some(0) => Err(PanicReason::ExpectedNestedCaller), Some(p) => Ok(p), None => Err(PanicReason::ExpectedInternalContext) },
            0x03 => match ctx { Ctx::PredVerify | Ctx::PredEstimate => Ok(pred_idx as Word), _ => Err(PanicReason::TransactionValidity) },
            0x04 => Ok(chain),
            0x05 => Ok(tx_offset as Word),
            0x06 => Ok(32), // base asset id sits right after the 32-byte tx id at the start of memory
            0x07 => match ctx { Ctx::PredVerify | Ctx::PredEstimate => Err(PanicReason::CanNotGetGasPriceInPredicate), _ => Ok(price) },
            0x08 => match owner { Some(p) => Ok(p), None => Err(PanicReason::OwnerIsUnknown) },
            _ => Err(PanicReason::InvalidMetadataIdentifier),
        };
        if ra < VM_REGISTER_SYSTEM_COUNT {
            assert!(matches!(res, Err(RuntimeError::Recoverable(PanicReason::ReservedRegisterNotWritable))));
            assert!(vm.registers[probe] == exp[probe]);
        } else {
            match spec {
                Ok(v) => {
                    assert!(matches!(res, Ok(ExecuteState::Proceed)));
                    exp[ra] = v;
                    exp[R_PC] = regs[R_PC] + 4;
                    assert!(vm.registers[probe] == exp[probe]);
                    kani::cover!(imm == 0x02, "caller returned");
                    kani::cover!(imm == 0x08, "owner pointer returned");
                }
                Err(reason) => {
                    match &res { Err(RuntimeError::Recoverable(r)) => assert!(*r == reason), _ => assert!(false, "must panic") }
                    assert!(vm.registers[probe] == exp[probe]);
                    kani::cover!(imm > 0x08, "undefined selector refused");
                }
            }
        }
    }
    core::mem::forget(vm);
}
// context and presence of a call frame are harness constants (a symbolic frame vector runs out of memory)
gh!(c05_gm_script, { gm_case(Ctx::Script, false) });
gh!(c05_gm_call, { gm_case(Ctx::Call, true) });
gh!(c05_gm_call_no_frame, { gm_case(Ctx::Call, false) });
gh!(c05_gm_predicate_verify, { gm_case(Ctx::PredVerify, false) });
gh!(c05_gm_predicate_estimate, { gm_case(Ctx::PredEstimate, false) });

// ---------------------------------------------------------------------------------------------
// GTF on a Script with one input of each family (coin predicate, contract, message-data
// predicate), two outputs and one witness.  Selector numbers are the specification's literals.
// Oracle: value selectors return the value the harness put into the transaction; pointer selectors
// return tx_offset + an offset at which the canonical encoding (the real `to_bytes`, whose placement
// in VM memory at tx_offset is decided by c31_init_*) holds exactly the field's bytes; selectors of a
// different input family / absent indices / another transaction kind panic as specified.
// ---------------------------------------------------------------------------------------------
use crate::error::PanicOrBug;
const TXO: usize = 512;

struct Fx {
    t0: [u8; 32], x0: u16, o0: [u8; 32], a0: Word, s0: [u8; 32], tp0: TxPointer, g0: Word, p0: [u8; 5], d0: [u8; 3],
    t1: [u8; 32], x1: u16, br1: [u8; 32], sr1: [u8; 32], tp1: TxPointer, c1: [u8; 32],
    se2: [u8; 32], re2: [u8; 32], a2: Word, n2: [u8; 32], g2: Word, md2: [u8; 2], p2: [u8; 9], pd2: [u8; 1],
    to: [u8; 32], oam: Word, oas: [u8; 32],
    w0: [u8; 3], script: [u8; 4], sdata: [u8; 2], gas_limit: Word, tip: Word, maxfee: Word, rr: [u8; 32],
}
fn txp() -> TxPointer { TxPointer::new(BlockHeight::from(kani::any::<u32>()), kani::any()) }
fn any_fx() -> Fx {
    Fx { t0: kani::any(), x0: kani::any(), o0: kani::any(), a0: kani::any(), s0: kani::any(), tp0: txp(), g0: kani::any(), p0: kani::any(), d0: kani::any(),
         t1: kani::any(), x1: kani::any(), br1: kani::any(), sr1: kani::any(), tp1: txp(), c1: kani::any(),
         se2: kani::any(), re2: kani::any(), a2: kani::any(), n2: kani::any(), g2: kani::any(), md2: kani::any(), p2: kani::any(), pd2: kani::any(),
         to: kani::any(), oam: kani::any(), oas: kani::any(),
         w0: kani::any(), script: kani::any(), sdata: kani::any(), gas_limit: kani::any(), tip: kani::any(), maxfee: kani::any(), rr: kani::any() }
}
fn mk_tx(f: &Fx) -> Script {
    use fuel_tx::field::ReceiptsRoot;
    let mut pol = Policies::new();
    pol.set(PolicyType::Tip, Some(f.tip));
    pol.set(PolicyType::MaxFee, Some(f.maxfee));
    let mut tx = Transaction::script(f.gas_limit, f.script.to_vec(), f.sdata.to_vec(), pol,
        alloc::vec![
            Input::coin_predicate(UtxoId::new(Bytes32::new(f.t0), f.x0), Address::new(f.o0), f.a0, AssetId::new(f.s0), f.tp0, f.g0, f.p0.to_vec(), f.d0.to_vec()),
            Input::contract(UtxoId::new(Bytes32::new(f.t1), f.x1), Bytes32::new(f.br1), Bytes32::new(f.sr1), f.tp1, ContractId::new(f.c1)),
            Input::message_data_predicate(Address::new(f.se2), Address::new(f.re2), f.a2, fuel_types::Nonce::new(f.n2), f.g2, f.md2.to_vec(), f.p2.to_vec(), f.pd2.to_vec()),
        ],
        alloc::vec![Output::coin(Address::new(f.to), f.oam, AssetId::new(f.oas)), Output::contract(1, Bytes32::zeroed(), Bytes32::zeroed())],
        alloc::vec![Witness::from(f.w0.to_vec())]);
    *tx.receipts_root_mut() = Bytes32::new(f.rr);
    tx
}

/// A VM whose memory holds the size word below tx_offset (GTF reads it) and whose tx is `tx`.
fn gtf_vm(tx: Script, size: Word) -> Vm {
    let mut stack: Vec<u8> = alloc::vec![0u8; TXO];
    let sb = size.to_be_bytes();
    let mut i = 0;
    while i < 8 { stack[TXO - 8 + i] = sb[i]; i += 1; }
    let mut regs = [0u64; VM_REGISTER_COUNT];
    regs[1] = 1; regs[R_HP] = VM_MAX_RAM; regs[R_SSP] = TXO as Word; regs[R_SP] = TXO as Word; regs[R_GGAS] = 1000; regs[R_CGAS] = 1000;
    let mut vm = mk_vm(regs, MemoryInstance::verif_from_parts(stack, Vec::new(), MEM_SIZE), GasCostsValuesV7::free());
    vm.interpreter_params.tx_offset = TXO;
    vm.tx = tx;
    vm.input_contracts_index_to_output_index.insert(1, 1);
    vm
}

fn gtf(vm: &mut Vm, b: Word, imm: u16) -> Result<Word, PanicReason> {
    vm.registers[0x10] = 0xDEAD_BEEF;
    let pc = vm.registers[R_PC];
    match vm.get_transaction_field(rid(0x10), b, imm) {
        Ok(()) => { assert!(vm.registers[R_PC] == pc + 4); Ok(vm.registers[0x10]) }
        Err(PanicOrBug::Panic(r)) => { assert!(vm.registers[0x10] == 0xDEAD_BEEF && vm.registers[R_PC] == pc); Err(r) }
        Err(PanicOrBug::Bug(_)) => { assert!(false, "GTF never reports an internal bug"); Err(PanicReason::UnknownPanicReason) }
    }
}
fn val(r: Result<Word, PanicReason>, v: Word) { assert!(r == Ok(v)); }
fn err(r: Result<Word, PanicReason>, e: PanicReason) { assert!(r == Err(e)); }
/// pointer selector: points into the encoded transaction at exactly the field's canonical bytes
fn ptr(r: Result<Word, PanicReason>, tb: &[u8], f: &[u8]) {
    match r {
        Ok(p) => {
            let p = p as usize;
            assert!(p >= TXO && p - TXO + f.len() <= tb.len());
            assert!(tb[p - TXO..p - TXO + f.len()] == *f);
        }
        Err(_) => assert!(false, "pointer selector must succeed"),
    }
}

macro_rules! gtfh {
    ($name:ident, $body:block) => {
        #[kani::proof]
        #[kani::unwind(70)]
        #[kani::stub(crate::constraints::reg_key::split_registers, split_registers_model)]
        #[kani::stub(core::result::Result::expect, expect_model)]
        #[kani::stub(core::result::Result::unwrap, unwrap_model)]
        pub fn $name() $body
    };
}

gtfh!(c05_gtf_inputs, {
    let f = any_fx();
    let tx = mk_tx(&f);
    let tb = tx.to_bytes();
    let mut vm = gtf_vm(tx, tb.len() as Word);
    use PanicReason::InputNotFound as NF;
    // InputType: coin 0, contract 1, message 2
    val(gtf(&mut vm, 0, 0x200), 0); val(gtf(&mut vm, 1, 0x200), 1); val(gtf(&mut vm, 2, 0x200), 2); err(gtf(&mut vm, 3, 0x200), NF);
    // coin selectors on the coin input
    ptr(gtf(&mut vm, 0, 0x201), &tb, &f.t0);
    val(gtf(&mut vm, 0, 0x202), f.x0 as Word);
    ptr(gtf(&mut vm, 0, 0x203), &tb, &f.o0);
    val(gtf(&mut vm, 0, 0x204), f.a0);
    ptr(gtf(&mut vm, 0, 0x205), &tb, &f.s0);
    ptr(gtf(&mut vm, 0, 0x206), &tb, &f.tp0.to_bytes());
    err(gtf(&mut vm, 0, 0x207), NF); // a predicate coin has no witness index
    val(gtf(&mut vm, 0, 0x209), 5);
    val(gtf(&mut vm, 0, 0x20A), 3);
    ptr(gtf(&mut vm, 0, 0x20B), &tb, &f.p0);
    ptr(gtf(&mut vm, 0, 0x20C), &tb, &f.d0);
    val(gtf(&mut vm, 0, 0x20D), f.g0);
    // coin selectors on other families / absent index
    let sel_coin: [u16; 12] = [0x201, 0x202, 0x203, 0x204, 0x205, 0x206, 0x207, 0x209, 0x20A, 0x20B, 0x20C, 0x20D];
    let k: usize = kani::any();
    kani::assume(k < 12);
    let other: Word = kani::any();
    kani::assume(other >= 1);
    err(gtf(&mut vm, other, sel_coin[k]), NF);
    // contract selectors
    ptr(gtf(&mut vm, 1, 0x220), &tb, &f.t1);
    val(gtf(&mut vm, 1, 0x221), 1);
    ptr(gtf(&mut vm, 1, 0x225), &tb, &f.c1);
    err(gtf(&mut vm, 0, 0x220), NF); err(gtf(&mut vm, 2, 0x225), NF); err(gtf(&mut vm, 0, 0x221), NF); err(gtf(&mut vm, 3, 0x220), NF);
    // message selectors
    ptr(gtf(&mut vm, 2, 0x240), &tb, &f.se2);
    ptr(gtf(&mut vm, 2, 0x241), &tb, &f.re2);
    val(gtf(&mut vm, 2, 0x242), f.a2);
    ptr(gtf(&mut vm, 2, 0x243), &tb, &f.n2);
    err(gtf(&mut vm, 2, 0x244), NF);
    val(gtf(&mut vm, 2, 0x245), 2);
    val(gtf(&mut vm, 2, 0x246), 9);
    val(gtf(&mut vm, 2, 0x247), 1);
    ptr(gtf(&mut vm, 2, 0x248), &tb, &f.md2);
    ptr(gtf(&mut vm, 2, 0x249), &tb, &f.p2);
    ptr(gtf(&mut vm, 2, 0x24A), &tb, &f.pd2);
    val(gtf(&mut vm, 2, 0x24B), f.g2);
    let sel_msg: [u16; 12] = [0x240, 0x241, 0x242, 0x243, 0x244, 0x245, 0x246, 0x247, 0x248, 0x249, 0x24A, 0x24B];
    let not_msg: Word = kani::any();
    kani::assume(not_msg != 2);
    err(gtf(&mut vm, not_msg, sel_msg[k]), NF);
    kani::cover!(true, "input selectors checked");
    core::mem::forget(vm); core::mem::forget(tb);
});

gtfh!(c05_gtf_general, {
    let f = any_fx();
    let tx = mk_tx(&f);
    let tb = tx.to_bytes();
    let size = tb.len() as Word;
    let mut vm = gtf_vm(tx, size);
    let b: Word = kani::any();
    val(gtf(&mut vm, b, 0x001), 0);                 // Type: script
    val(gtf(&mut vm, b, 0x002), f.gas_limit);
    val(gtf(&mut vm, b, 0x003), 4); val(gtf(&mut vm, b, 0x004), 2);
    val(gtf(&mut vm, b, 0x005), 3); val(gtf(&mut vm, b, 0x006), 2); val(gtf(&mut vm, b, 0x007), 1);
    val(gtf(&mut vm, b, 0x900), 3); val(gtf(&mut vm, b, 0x901), 2); val(gtf(&mut vm, b, 0x902), 1);
    ptr(gtf(&mut vm, b, 0x009), &tb, &f.script);
    ptr(gtf(&mut vm, b, 0x00A), &tb, &f.sdata);
    val(gtf(&mut vm, b, 0x00E), size);
    // policies: tip (bit 0) and max fee (bit 3) are set
    val(gtf(&mut vm, b, 0x500), 0b1001);
    val(gtf(&mut vm, b, 0x501), f.tip); val(gtf(&mut vm, b, 0x504), f.maxfee);
    err(gtf(&mut vm, b, 0x502), PanicReason::PolicyIsNotSet); err(gtf(&mut vm, b, 0x503), PanicReason::PolicyIsNotSet);
    err(gtf(&mut vm, b, 0x505), PanicReason::PolicyIsNotSet); err(gtf(&mut vm, b, 0x506), PanicReason::PolicyIsNotSet);
    // element pointers: the canonical encoding of the element starts there
    let i0 = vm.tx.inputs()[0].to_bytes(); let i2 = vm.tx.inputs()[2].to_bytes();
    ptr(gtf(&mut vm, 0, 0x00B), &tb, &i0); ptr(gtf(&mut vm, 2, 0x903), &tb, &i2);
    err(gtf(&mut vm, 3, 0x00B), PanicReason::InputNotFound); err(gtf(&mut vm, 3, 0x903), PanicReason::InputNotFound);
    let o1 = vm.tx.outputs()[1].to_bytes();
    ptr(gtf(&mut vm, 1, 0x00C), &tb, &o1); ptr(gtf(&mut vm, 1, 0x904), &tb, &o1);
    err(gtf(&mut vm, 2, 0x00C), PanicReason::OutputNotFound);
    let w = vm.tx.witnesses()[0].to_bytes();
    ptr(gtf(&mut vm, 0, 0x00D), &tb, &w); ptr(gtf(&mut vm, 0, 0x905), &tb, &w);
    err(gtf(&mut vm, 1, 0x00D), PanicReason::WitnessNotFound);
    // outputs
    val(gtf(&mut vm, 0, 0x300), 0); val(gtf(&mut vm, 1, 0x300), 1); err(gtf(&mut vm, 2, 0x300), PanicReason::OutputNotFound);
    ptr(gtf(&mut vm, 0, 0x301), &tb, &f.to);
    val(gtf(&mut vm, 0, 0x302), f.oam);
    ptr(gtf(&mut vm, 0, 0x303), &tb, &f.oas);
    err(gtf(&mut vm, 1, 0x301), PanicReason::OutputNotFound); err(gtf(&mut vm, 1, 0x302), PanicReason::OutputNotFound);
    val(gtf(&mut vm, 1, 0x304), 1);
    err(gtf(&mut vm, 0, 0x307), PanicReason::OutputNotFound); err(gtf(&mut vm, 1, 0x308), PanicReason::OutputNotFound);
    // witness
    val(gtf(&mut vm, 0, 0x400), 3);
    ptr(gtf(&mut vm, 0, 0x401), &tb, &f.w0);
    err(gtf(&mut vm, 1, 0x400), PanicReason::WitnessNotFound);
    // selectors of other transaction kinds and undefined selectors
    let foreign: [u16; 12] = [0x101, 0x102, 0x106, 0x107, 0x600, 0x601, 0x602, 0x603, 0x604, 0x605, 0x700, 0x800];
    let k: usize = kani::any();
    kani::assume(k < 12);
    err(gtf(&mut vm, b, foreign[k]), PanicReason::InvalidMetadataIdentifier);
    let undef: u16 = kani::any();
    kani::assume(undef < 4096 && (undef == 0 || undef == 0x008 || (undef > 0x00E && undef < 0x101) || (undef > 0x10A && undef < 0x200) || undef == 0x208
                 || (undef > 0x20D && undef < 0x220) || (undef > 0x225 && undef < 0x240) || (undef > 0x24B && undef < 0x300) || (undef > 0x308 && undef < 0x400)
                 || (undef > 0x401 && undef < 0x500) || (undef > 0x506 && undef < 0x600) || (undef > 0x605 && undef < 0x700) || (undef > 0x701 && undef < 0x800)
                 || (undef > 0x800 && undef < 0x900) || undef > 0x905));
    err(gtf(&mut vm, b, undef), PanicReason::InvalidMetadataIdentifier);
    kani::cover!(true, "general selectors checked");
    core::mem::forget(vm); core::mem::forget(tb);
});

// GTF on a Create transaction: script selectors belong to another kind, create selectors are served.
gtfh!(c05_gtf_create, {
    use fuel_tx::{Create, StorageSlot};
    use fuel_types::Salt;
    let salt: [u8; 32] = kani::any();
    let (sk, sv): ([u8; 32], [u8; 32]) = (kani::any(), kani::any());
    let bwi: u16 = kani::any();
    let (o0, p0): ([u8; 32], [u8; 3]) = (kani::any(), kani::any());
    let (cid, sr): ([u8; 32], [u8; 32]) = (kani::any(), kani::any());
    let code: [u8; 4] = kani::any();
    let mut pol = Policies::new();
    pol.set(PolicyType::MaxFee, Some(kani::any()));
    let tx: Create = Transaction::create(bwi, pol, Salt::new(salt), alloc::vec![StorageSlot::new(Bytes32::new(sk), Bytes32::new(sv))],
        alloc::vec![Input::coin_predicate(UtxoId::default(), Address::new(o0), kani::any(), AssetId::zeroed(), TxPointer::default(), kani::any(), p0.to_vec(), Vec::new())],
        alloc::vec![Output::contract_created(ContractId::new(cid), Bytes32::new(sr))],
        alloc::vec![Witness::from(code.to_vec())]);
    let tb = tx.to_bytes();
    let size = tb.len() as Word;
    let mut stack: Vec<u8> = alloc::vec![0u8; TXO];
    let sb = size.to_be_bytes();
    let mut i = 0;
    while i < 8 { stack[TXO - 8 + i] = sb[i]; i += 1; }
    let mut regs = [0u64; VM_REGISTER_COUNT];
    regs[1] = 1; regs[R_HP] = VM_MAX_RAM; regs[R_SSP] = TXO as Word; regs[R_SP] = TXO as Word;
    let mut vm = mk_vm_tx(regs, MemoryInstance::verif_from_parts(stack, Vec::new(), MEM_SIZE), GasCostsValuesV7::free(),
                          MemoryStorage::new(Default::default(), ContractId::zeroed()), tx);
    vm.interpreter_params.tx_offset = TXO;
    let mut g = |b: Word, imm: u16| -> Result<Word, PanicReason> {
        vm.registers[0x10] = 0xDEAD_BEEF;
        match vm.get_transaction_field(rid(0x10), b, imm) {
            Ok(()) => Ok(vm.registers[0x10]),
            Err(PanicOrBug::Panic(r)) => { assert!(vm.registers[0x10] == 0xDEAD_BEEF); Err(r) }
            Err(PanicOrBug::Bug(_)) => { assert!(false, "GTF never reports an internal bug"); Err(PanicReason::UnknownPanicReason) }
        }
    };
    let b: Word = kani::any();
    val(g(b, 0x001), 1); // Type: create
    // script selectors are selectors of another transaction kind
    let script_sel: [u16; 4] = [0x003, 0x004, 0x009, 0x00A];
    let k: usize = kani::any();
    kani::assume(k < 4);
    err(g(b, script_sel[k]), PanicReason::InvalidMetadataIdentifier);
    let foreign: [u16; 9] = [0x600, 0x601, 0x602, 0x603, 0x604, 0x605, 0x700, 0x701, 0x800];
    let j: usize = kani::any();
    kani::assume(j < 9);
    err(g(b, foreign[j]), PanicReason::InvalidMetadataIdentifier);
    // create selectors
    val(g(b, 0x101), bwi as Word);
    val(g(b, 0x102), 1);
    val(g(b, 0x103), 1); val(g(b, 0x104), 1); val(g(b, 0x105), 1);
    ptr(g(b, 0x106), &tb, &salt);
    let mut slot = [0u8; 64];
    let mut i = 0;
    while i < 32 { slot[i] = sk[i]; slot[32 + i] = sv[i]; i += 1; }
    ptr(g(0, 0x107), &tb, &slot);
    err(g(1, 0x107), PanicReason::StorageSlotsNotFound);
    ptr(g(0, 0x203), &tb, &o0);
    ptr(g(0, 0x20B), &tb, &p0);
    ptr(g(0, 0x307), &tb, &cid);
    ptr(g(0, 0x308), &tb, &sr);
    ptr(g(0, 0x401), &tb, &code);
    val(g(0, 0x400), 4);
    kani::cover!(true, "create selectors checked");
    core::mem::forget(vm); core::mem::forget(tb);
});
