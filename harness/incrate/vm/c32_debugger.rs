// C32 — breakpoints and single-stepping do not change execution results: the debugger kernel
// (Debugger::eval_state last-state suppression) and the debugger gate in instruction_per_inner.
// Breakpoint *sets* live in a hashbrown map (K5) and are outside the claim; single-stepping takes
// exactly the same suppression path.
use super::*;
use super::c21_alu::charge;
use crate::state::{Breakpoint, DebugEval, ProgramState};

/// K3: the curve back ends are never executed (the opcode is a harness constant); the stubs only keep
/// Kani's reachability analysis away from secp256k1 -> thread_rng -> catch_unwind.
pub(crate) fn k1_recover_never(_s: &fuel_crypto::Signature, _m: &fuel_crypto::Message) -> Result<fuel_crypto::PublicKey, fuel_crypto::Error> {
    Err(fuel_crypto::Error::InvalidSignature)
}

fn any_contract() -> Option<ContractId> {
    if kani::any() { Some(ContractId::new(kani::any())) } else { None }
}
fn bp_of(c: &Option<ContractId>, pc: Word) -> Breakpoint { Breakpoint::raw(c.unwrap_or_default(), pc) }

fn any_last_state() -> Option<ProgramState> {
    let k: u8 = kani::any();
    kani::assume(k < 6);
    let ev = if kani::any() { DebugEval::Continue } else { DebugEval::Breakpoint(Breakpoint::raw(ContractId::new(kani::any()), kani::any())) };
    match k {
        0 => None,
        1 => Some(ProgramState::Return(kani::any())),
        2 => Some(ProgramState::Revert(kani::any())),
        3 => Some(ProgramState::ReturnData(fuel_types::Bytes32::new(kani::any()))),
        4 => Some(ProgramState::RunProgram(ev)),
        _ => Some(ProgramState::VerifyPredicate(ev)),
    }
}

macro_rules! dh {
    ($name:ident, $body:block) => {
        #[kani::proof]
        #[kani::unwind(70)]
        #[kani::stub(crate::constraints::reg_key::split_registers, split_registers_model)]
        #[kani::stub(core::result::Result::expect, expect_model)]
        #[kani::stub(core::result::Result::unwrap, unwrap_model)]
        #[kani::stub(fuel_crypto::Signature::recover, k1_recover_never)]
        #[kani::stub(fuel_crypto::secp256r1::recover, super::crypto17::r1_recover_model)]
        #[kani::stub(fuel_crypto::ed25519::verify, super::crypto17::ed_verify_model)]
        pub fn $name() $body
    };
}

// eval_state, single-stepping: break at the current location unless the last reported state is a
// break at exactly this location; the last state is consumed either way.
dh!(c32_eval_single_stepping, {
    let mut d = Debugger::default();
    assert!(!d.is_active());
    d.set_single_stepping(true);
    assert!(d.is_active() && d.single_stepping());
    let last = any_last_state();
    if let Some(s) = last { d.set_last_state(s); }
    let c = any_contract();
    let pc: Word = kani::any();
    let cur = bp_of(&c, pc);
    let r = d.eval_state(c.as_ref(), pc);
    let suppressed = match last {
        Some(ProgramState::RunProgram(DebugEval::Breakpoint(b))) | Some(ProgramState::VerifyPredicate(DebugEval::Breakpoint(b))) => b == cur,
        _ => false,
    };
    if suppressed {
        assert!(r == DebugEval::Continue);
        kani::cover!(true, "resumed location is not reported twice");
    } else {
        assert!(r == DebugEval::Breakpoint(cur));
        kani::cover!(last.is_some(), "new location reported");
    }
    assert!(d.last_state().is_none(), "the last state is consumed");
    // the very next evaluation (no intervening report) at any location breaks again
    let c2 = any_contract();
    let pc2: Word = kani::any();
    assert!(d.eval_state(c2.as_ref(), pc2) == DebugEval::Breakpoint(bp_of(&c2, pc2)));
});

// eval_state without breakpoints and without single-stepping never breaks.
dh!(c32_eval_no_breakpoints, {
    let mut d = Debugger::default();
    let last = any_last_state();
    if let Some(s) = last { d.set_last_state(s); }
    if kani::any() { d.set_single_stepping(false); }
    let c = any_contract();
    let r = d.eval_state(c.as_ref(), kani::any());
    assert!(r == DebugEval::Continue);
    assert!(d.last_state().is_none());
    kani::cover!(true, "continue");
});

// The gate in instruction_per_inner: a reported debug event executes nothing (no register, gas or
// memory change); a suppressed one executes the instruction exactly as without a debugger.
fn gate_case(raw: [u8; 4], cost_of: fn(&GasCostsValuesV7) -> Word) {
    let regs = {
        let mut r = any_registers();
        assume_reg_inv(&r);
        r
    };
    let gas = any_gas_costs();
    let cost = cost_of(&gas);
    let probe: usize = kani::any();
    kani::assume(probe < 64);
    let mut vm = mk_vm(regs, MemoryInstance::new(), gas.clone());
    let mut plain = mk_vm(regs, MemoryInstance::new(), gas);
    vm.debugger.set_single_stepping(true);
    let here = Breakpoint::raw(ContractId::zeroed(), regs[R_PC].saturating_sub(regs[R_IS]));
    let resumed: bool = kani::any();
    if resumed { vm.debugger.set_last_state(ProgramState::RunProgram(DebugEval::Breakpoint(here))); }
    let r = vm.instruction_per_inner::<false>(raw);
    if !resumed {
        assert!(matches!(r, Ok(ExecuteState::DebugEvent(DebugEval::Breakpoint(b))) if b == here));
        assert!(vm.registers[probe] == regs[probe], "a reported debug event executes nothing");
        kani::cover!(true, "stopped before the instruction");
    } else {
        let p = plain.instruction_per_inner::<false>(raw);
        assert!(vm.registers[probe] == plain.registers[probe], "resumed step == step without debugger");
        match (&r, &p) {
            (Ok(a), Ok(b)) => assert!(a == b),
            (Err(_), Err(_)) => {}
            _ => assert!(false, "same outcome"),
        }
        kani::cover!(r.is_ok(), "resumed instruction executed");
    }
    core::mem::forget(vm);
    core::mem::forget(plain);
}
dh!(c32x_gate_noop, { gate_case(fuel_asm::op::noop().to_bytes(), |g| g.noop) });
dh!(c32x_gate_add, { gate_case(fuel_asm::op::add(RegId::new(0x10), RegId::new(0x11), RegId::new(0x12)).to_bytes(), |g| g.add) });
dh!(c32x_gate_ji, { gate_case(fuel_asm::op::ji(3).to_bytes(), |g| g.ji) });
