// C24 — programs can only write memory they own (memory instruction handlers, one step each),
// plus the executable-region check of instruction fetch (C25).
use super::*;
use super::c21_alu::charge;

pub(crate) const LS: usize = 64; // initialised stack bytes
pub(crate) const LH: usize = 16; // initialised heap bytes

pub(crate) struct St {
    pub regs: [Word; VM_REGISTER_COUNT],
    pub ra: usize, pub rb: usize, pub rc: usize, pub rd: usize,
    pub imm12: u16, pub imm18: u32,
    pub probe: usize,   // register probe
    pub a: usize,       // memory probe address
    pub gas: GasCostsValuesV7,
}

/// sigma |= VMINV with symbolic memory: stack.len() = LS, heap.len() = LH, hp symbolic.
pub(crate) fn any_state() -> (St, MemoryInstance) {
    let mut stack: Vec<u8> = Vec::with_capacity(LS);
    let mut i = 0;
    while i < LS { stack.push(kani::any()); i += 1; }
    let mut heap: Vec<u8> = Vec::with_capacity(LH);
    let mut i = 0;
    while i < LH { heap.push(kani::any()); i += 1; }
    let hp: usize = kani::any();
    kani::assume(hp <= MEM_SIZE && hp >= MEM_SIZE - LH);
    let mem = MemoryInstance::verif_from_parts(stack, heap, hp);
    let mut regs = any_registers();
    assume_reg_inv(&regs);
    kani::assume(regs[R_HP] == hp as Word);
    kani::assume(regs[R_SP] <= LS as Word);
    kani::assume(regs[R_FP] == 0); // no call frame: prev_hp = VM_MAX_RAM
    let (ra, rb, rc, rd): (usize, usize, usize, usize) = (kani::any(), kani::any(), kani::any(), kani::any());
    kani::assume(ra < 64 && rb < 64 && rc < 64 && rd < 64);
    let (imm12, imm18): (u16, u32) = (kani::any(), kani::any());
    kani::assume(imm12 < 4096 && imm18 < (1 << 18));
    let probe: usize = kani::any();
    kani::assume(probe < 64);
    (St { regs, ra, rb, rc, rd, imm12, imm18, probe, a: kani::any(), gas: any_gas_costs() }, mem)
}
impl St {
    pub fn src(&self, r: usize, cost: Word) -> Word {
        if r == R_CGAS || r == R_GGAS { self.regs[r].wrapping_sub(cost) } else { self.regs[r] }
    }
}
fn rid(i: usize) -> RegId { RegId::new(i as u8) }

/// Why an access [s, s+len) must be refused (None = allowed), per the property statement.
/// `write`: ownership required.
pub(crate) fn access_spec(regs: &[Word; VM_REGISTER_COUNT], stack_len: usize, s: u128, len: u128, write: bool) -> Option<PanicReason> {
    let e = s + len;
    if s > MEM_SIZE as u128 || len > MEM_SIZE as u128 || e > MEM_SIZE as u128 { return Some(PanicReason::MemoryOverflow) }
    let (ssp, sp, hp) = (regs[R_SSP] as u128, regs[R_SP] as u128, regs[R_HP] as u128);
    if !(e <= stack_len as u128 || s >= hp) { return Some(PanicReason::UninitalizedMemoryAccess) }
    if write && len > 0 {
        let owned = (ssp <= s && e <= sp) || (hp <= s && e <= VM_MAX_RAM as u128);
        if !owned { return Some(PanicReason::MemoryOwnership) }
    }
    None
}

macro_rules! mem_h {
    ($name:ident, $body:block) => {
        #[kani::proof]
        #[kani::unwind(70)]
        #[kani::stub(crate::constraints::reg_key::split_registers, split_registers_model)]
        #[kani::stub(core::result::Result::expect, expect_model)]
        #[kani::stub(core::result::Result::unwrap, unwrap_model)]
        pub fn $name() $body
    };
}

/// store of SIZE bytes: SB/SQW/SHW/SW
macro_rules! store {
    ($name:ident, $Op:ident, $gas:ident, $size:literal) => {
        mem_h!($name, {
            let (i, mem) = any_state();
            let cost = i.gas.$gas;
            let before = mem.verif_flat(i.a);
            let base = i.src(i.ra, cost);
            let value = i.src(i.rb, cost);
            let addr = base as u128 + (i.imm12 as u128) * $size;
            let mut vm = mk_vm(i.regs, mem, i.gas.clone());
            let res = op::$Op::new(rid(i.ra), rid(i.rb), Imm12::new(i.imm12)).execute(&mut vm);
            if let Some(mut exp) = charge(&i.regs, &vm.registers, &res, cost, i.probe) {
                let refuse = if addr > u64::MAX as u128 { Some(PanicReason::MemoryOverflow) } else { access_spec(&i.regs, LS, addr, $size, true) };
                match refuse {
                    Some(reason) => {
                        match &res { Err(RuntimeError::Recoverable(r)) => assert!(*r == reason), _ => assert!(false, "expected panic") }
                        assert!(vm.memory.verif_flat(i.a) == before);
                        kani::cover!(reason == PanicReason::MemoryOwnership, "ownership refused");
                        kani::cover!(reason == PanicReason::UninitalizedMemoryAccess, "uninitialised refused");
                        kani::cover!(reason == PanicReason::MemoryOverflow, "overflow refused");
                    }
                    None => {
                        assert!(matches!(res, Ok(ExecuteState::Proceed)));
                        exp[R_PC] = i.regs[R_PC] + 4;
                        let a = i.a as u128;
                        if a >= addr && a < addr + $size {
                            let k = (a - addr) as u32;              // big-endian byte k of the truncated value
                            let byte = (value >> (8 * ($size as u32 - 1 - k))) as u8;
                            assert!(vm.memory.verif_flat(i.a) == Some(byte));
                            kani::cover!(addr < LS as u128, "stack byte written");
                            kani::cover!(addr >= i.regs[R_HP] as u128, "heap byte written");
                        } else {
                            assert!(vm.memory.verif_flat(i.a) == before);
                        }
                    }
                }
                assert!(vm.registers[i.probe] == exp[i.probe]);
            }
            assert!(vm.memory.verif_minv());
            core::mem::forget(vm);
        });
    };
}
store!(c24_sb, SB, sb, 1);
store!(c24_sqw, SQW, sw, 2);
store!(c24_shw, SHW, sw, 4);
store!(c24_sw, SW, sw, 8);

/// load of SIZE bytes: LB/LQW/LHW/LW
macro_rules! load {
    ($name:ident, $Op:ident, $gas:ident, $size:literal) => {
        mem_h!($name, {
            let (i, mem) = any_state();
            let cost = i.gas.$gas;
            let before = mem.verif_flat(i.a);
            let base = i.src(i.rb, cost);
            let addr = base as u128 + (i.imm12 as u128) * $size;
            // expected value: big-endian bytes at addr (read before the step)
            let mut expect: Word = 0;
            let mut readable = addr <= u64::MAX as u128 && access_spec(&i.regs, LS, addr, $size, false).is_none();
            if readable {
                let mut k = 0;
                while k < $size { expect = (expect << 8) | mem.verif_flat(addr as usize + k).unwrap() as Word; k += 1; }
            }
            let mut vm = mk_vm(i.regs, mem, i.gas.clone());
            let res = op::$Op::new(rid(i.ra), rid(i.rb), Imm12::new(i.imm12)).execute(&mut vm);
            if let Some(mut exp) = charge(&i.regs, &vm.registers, &res, cost, i.probe) {
                if i.ra < VM_REGISTER_SYSTEM_COUNT {
                    assert!(matches!(res, Err(RuntimeError::Recoverable(PanicReason::ReservedRegisterNotWritable))));
                } else if !readable {
                    let reason = if addr > u64::MAX as u128 { PanicReason::MemoryOverflow } else { access_spec(&i.regs, LS, addr, $size, false).unwrap() };
                    match &res { Err(RuntimeError::Recoverable(r)) => assert!(*r == reason), _ => assert!(false, "expected panic") }
                    kani::cover!(true, "read refused");
                } else {
                    assert!(matches!(res, Ok(ExecuteState::Proceed)));
                    exp[R_PC] = i.regs[R_PC] + 4;
                    exp[i.ra] = expect;
                    kani::cover!(true, "value loaded");
                }
                assert!(vm.registers[i.probe] == exp[i.probe]);
            }
            assert!(vm.memory.verif_flat(i.a) == before); // loads never change memory
            core::mem::forget(vm);
        });
    };
}
load!(c24_lb, LB, lb, 1);
load!(c24_lqw, LQW, lw, 2);
load!(c24_lhw, LHW, lw, 4);
load!(c24_lw, LW, lw, 8);

fn dep_cost(c: DependentCost, units: Word) -> Word { c.resolve(units) }

// MCLI: clear imm18 bytes (bounded to <= 6 by the harness) at $rA
mem_h!(c24_mcli, {
    let (i, mem) = any_state();
    let len6: u8 = kani::any();
    let len = (len6 & 7) as Word;
    let cost = dep_cost(i.gas.mcli, len);
    let before = mem.verif_flat(i.a);
    let addr = i.src(i.ra, cost);
    let mut vm = mk_vm(i.regs, mem, i.gas.clone());
    let res = op::MCLI::new(rid(i.ra), Imm18::new(len as u32)).execute(&mut vm);
    if let Some(mut exp) = charge(&i.regs, &vm.registers, &res, cost, i.probe) {
        match access_spec(&i.regs, LS, addr as u128, len as u128, true) {
            Some(reason) => {
                match &res { Err(RuntimeError::Recoverable(r)) => assert!(*r == reason), _ => assert!(false, "expected panic") }
                assert!(vm.memory.verif_flat(i.a) == before);
                kani::cover!(reason == PanicReason::MemoryOwnership, "ownership refused");
            }
            None => {
                // an empty range is accepted only where the VM accepts an empty write
                if len == 0 && res.is_err() {
                    assert!(matches!(res, Err(RuntimeError::Recoverable(PanicReason::MemoryOwnership))));
                } else {
                    assert!(matches!(res, Ok(ExecuteState::Proceed)));
                    exp[R_PC] = i.regs[R_PC] + 4;
                    if (i.a as Word) >= addr && (i.a as Word) < addr + len {
                        assert!(vm.memory.verif_flat(i.a) == Some(0));
                        kani::cover!(true, "byte cleared");
                    } else {
                        assert!(vm.memory.verif_flat(i.a) == before);
                    }
                }
            }
        }
        assert!(vm.registers[i.probe] == exp[i.probe]);
    }
    core::mem::forget(vm);
});

// MCPI: copy imm12 bytes (<= 5) from $rB to $rA; refused when the ranges share a byte
mem_h!(c24_mcpi, {
    let (i, mem) = any_state();
    let len3: u8 = kani::any();
    let len = (len3 & 3) as Word + 1; // 1..=4
    let cost = dep_cost(i.gas.mcpi, len);
    let before = mem.verif_flat(i.a);
    let (dst, src) = (i.src(i.ra, cost), i.src(i.rb, cost));
    let k: Word = kani::any();
    kani::assume(k < len);
    let src_byte = mem.verif_flat((src as usize).wrapping_add(k as usize));
    let mut vm = mk_vm(i.regs, mem, i.gas.clone());
    let res = op::MCPI::new(rid(i.ra), rid(i.rb), Imm12::new(len as u16)).execute(&mut vm);
    if let Some(mut exp) = charge(&i.regs, &vm.registers, &res, cost, i.probe) {
        let rd = access_spec(&i.regs, LS, dst as u128, len as u128, false);
        let rs = access_spec(&i.regs, LS, src as u128, len as u128, false);
        let share = core::cmp::max(dst as u128, src as u128) < core::cmp::min(dst as u128 + len as u128, src as u128 + len as u128);
        let refuse = if let Some(r) = rd { Some(r) } else if let Some(r) = rs { Some(r) }
            else if share { Some(PanicReason::MemoryWriteOverlap) }
            else { access_spec(&i.regs, LS, dst as u128, len as u128, true) };
        match refuse {
            Some(reason) => {
                match &res { Err(RuntimeError::Recoverable(r)) => assert!(*r == reason), _ => assert!(false, "expected panic") }
                assert!(vm.memory.verif_flat(i.a) == before);
                kani::cover!(reason == PanicReason::MemoryWriteOverlap, "overlap refused");
                kani::cover!(reason == PanicReason::MemoryOwnership, "ownership refused");
            }
            None => {
                assert!(matches!(res, Ok(ExecuteState::Proceed)));
                exp[R_PC] = i.regs[R_PC] + 4;
                if i.a as Word == dst + k { assert!(vm.memory.verif_flat(i.a) == src_byte); kani::cover!(true, "byte copied"); }
                else if (i.a as Word) < dst || (i.a as Word) >= dst + len { assert!(vm.memory.verif_flat(i.a) == before); }
            }
        }
        assert!(vm.registers[i.probe] == exp[i.probe]);
    }
    core::mem::forget(vm);
});

// fetch_instruction (C25): Ok exactly when 4 bytes at $pc are accessible and $is <= $pc < $ssp
mem_h!(c25_fetch, {
    let (i, mem) = any_state();
    // fetch does not assume the pc part of VMINV: any pc value
    let mut regs = i.regs;
    regs[R_PC] = kani::any();
    let pc = regs[R_PC];
    let readable = access_spec(&regs, LS, pc as u128, 4, false);
    let mut word: u32 = 0;
    if readable.is_none() { let mut k = 0; while k < 4 { word = (word << 8) | mem.verif_flat(pc as usize + k).unwrap() as u32; k += 1; } }
    let vm = mk_vm(regs, mem, i.gas.clone());
    let r = vm.fetch_instruction();
    match readable {
        Some(reason) => match r {
            Err(crate::error::InterpreterError::PanicInstruction(p)) => { assert!(*p.reason() == reason); kani::cover!(true, "fetch outside memory"); }
            _ => assert!(false),
        },
        None => {
            if pc < regs[R_IS] || pc >= regs[R_SSP] {
                match r {
                    Err(crate::error::InterpreterError::PanicInstruction(p)) => { assert!(*p.reason() == PanicReason::MemoryNotExecutable); }
                    _ => assert!(false, "non-executable address fetched"),
                }
                kani::cover!(pc == regs[R_SSP], "pc == ssp refused");
                kani::cover!(pc < regs[R_IS], "pc below is refused");
            } else {
                match r { Ok(b) => assert!(u32::from_be_bytes(b) == word), Err(_) => assert!(false) }
                kani::cover!(true, "instruction fetched");
            }
        }
    }
    core::mem::forget(vm);
});

// OwnershipRegisters::new: the heap bound comes from the *direct* caller's frame (frames.last());
// call depth 0, 1, 2 (harness constants) with symbolic saved $hp values.
fn ownership_from_frames(depth: usize) {
    use crate::call::CallFrame;
    use fuel_types::AssetId;
    let i = super::c21_alu::any_in();
    let (hp1, hp2): (Word, Word) = (kani::any(), kani::any());
    let mut vm = mk_vm(i.regs, MemoryInstance::new(), GasCostsValuesV7::unit());
    let mut s1 = [0u64; VM_REGISTER_COUNT]; s1[R_HP] = hp1;
    let mut s2 = [0u64; VM_REGISTER_COUNT]; s2[R_HP] = hp2;
    if depth >= 1 { vm.frames.push(CallFrame::new(ContractId::zeroed(), AssetId::zeroed(), s1, 0, 0, 0).unwrap()); }
    if depth >= 2 { vm.frames.push(CallFrame::new(ContractId::zeroed(), AssetId::zeroed(), s2, 0, 0, 0).unwrap()); }
    let o = vm.ownership_registers();
    let want = if depth >= 2 { hp2 } else if depth == 1 { hp1 } else { VM_MAX_RAM };
    assert!(o.prev_hp == want);
    assert!(o.sp == i.regs[R_SP] && o.ssp == i.regs[R_SSP] && o.hp == i.regs[R_HP]);
    kani::cover!(true, "ownership registers derived");
    core::mem::forget(vm);
}
mem_h!(c24_ownership_registers_depth0, { ownership_from_frames(0) });
mem_h!(c24_ownership_registers_depth1, { ownership_from_frames(1) });
mem_h!(c24_ownership_registers_depth2, { ownership_from_frames(2) });
