// C17 — the VM's signature instructions report the library's outcome: ECR1 and ED19 steps with the
// curve library call replaced by an ARBITRARY result (DESIGN §3.3): "for any answer of the curve
// library the handler writes the key / zeroes and sets $err accordingly".
use super::*;
use super::c21_alu::charge;
use super::memops::access_spec;
use fuel_crypto::{Error as CErr, Message};
use fuel_types::{Bytes32, Bytes64};

const LS: usize = 200;

// The model's answer is fixed per harness run through these globals (so the specification can see
// what the "library" said and what it was asked).
static mut R1_OK: bool = false;
static mut R1_KEY: [u8; 64] = [0; 64];
static mut R1_SEEN_SIG: [u8; 64] = [0; 64];
static mut R1_SEEN_MSG: [u8; 32] = [0; 32];
static mut R1_CALLS: u8 = 0;

pub(crate) fn r1_recover_model(signature: &Bytes64, message: &Message) -> Result<Bytes64, CErr> {
    unsafe {
        R1_CALLS += 1;
        R1_SEEN_SIG = **signature;
        R1_SEEN_MSG = **message;
        if R1_OK { Ok(Bytes64::new(R1_KEY)) } else { Err(CErr::InvalidSignature) }
    }
}

pub(crate) fn k1_recover_model(signature: &fuel_crypto::Signature, message: &Message) -> Result<fuel_crypto::PublicKey, CErr> {
    unsafe {
        R1_CALLS += 1;
        let sb: &[u8] = signature.as_ref();
        let mut i = 0;
        while i < 64 { R1_SEEN_SIG[i] = sb[i]; i += 1; }
        R1_SEEN_MSG = **message;
        if R1_OK {
            let mut pk = fuel_crypto::PublicKey::default();
            pk.as_mut().copy_from_slice(&R1_KEY);
            Ok(pk)
        } else { Err(CErr::InvalidSignature) }
    }
}

static mut ED_OK: bool = false;
static mut ED_SEEN_KEY: [u8; 32] = [0; 32];
static mut ED_SEEN_SIG: [u8; 64] = [0; 64];
static mut ED_SEEN_LEN: usize = 0;
static mut ED_SEEN_FIRST: u8 = 0;
static mut ED_CALLS: u8 = 0;
pub(crate) fn ed_verify_model(pub_key: &Bytes32, signature: &Bytes64, message: &[u8]) -> Result<(), CErr> {
    unsafe {
        ED_CALLS += 1;
        ED_SEEN_KEY = **pub_key;
        ED_SEEN_SIG = **signature;
        ED_SEEN_LEN = message.len();
        ED_SEEN_FIRST = if message.is_empty() { 0 } else { message[0] };
        if ED_OK { Ok(()) } else { Err(CErr::InvalidSignature) }
    }
}

fn rid(i: usize) -> RegId { RegId::new(i as u8) }

fn any_mem_regs() -> ([Word; VM_REGISTER_COUNT], MemoryInstance) {
    let mut stack: Vec<u8> = Vec::with_capacity(LS);
    let mut i = 0;
    while i < LS { stack.push(kani::any()); i += 1; }
    let mem = MemoryInstance::verif_from_parts(stack, Vec::new(), MEM_SIZE);
    let mut regs = any_registers();
    assume_reg_inv(&regs);
    kani::assume(regs[R_HP] == VM_MAX_RAM && regs[R_SP] <= LS as Word && regs[R_FP] == 0);
    (regs, mem)
}

fn rd<const N: usize>(m: &MemoryInstance, a: usize) -> [u8; N] {
    let mut o = [0u8; N];
    let mut i = 0;
    while i < N { o[i] = m.verif_flat(a + i).unwrap(); i += 1; }
    o
}

macro_rules! ch {
    ($name:ident, $body:block) => {
        #[kani::proof]
        #[kani::unwind(210)]
        #[kani::stub(crate::constraints::reg_key::split_registers, split_registers_model)]
        #[kani::stub(core::result::Result::expect, expect_model)]
        #[kani::stub(core::result::Result::unwrap, unwrap_model)]
        #[kani::stub(fuel_crypto::secp256r1::recover, r1_recover_model)]
        #[kani::stub(fuel_crypto::Signature::recover, k1_recover_model)]
        #[kani::stub(fuel_crypto::ed25519::verify, ed_verify_model)]
        pub fn $name() $body
    };
}

fn recover_case(k1: bool) {
    let (mut regs, mem) = any_mem_regs();
    let gas = any_gas_costs();
    let cost = if k1 { gas.eck1 } else { gas.ecr1 };
    let (a, b, c): (Word, Word, Word) = (kani::any(), kani::any(), kani::any());
    regs[0x10] = a; regs[0x11] = b; regs[0x12] = c;
    let probe: usize = kani::any();
    kani::assume(probe < 64);
    let pa: usize = kani::any(); // memory probe
    let ok: bool = kani::any();
    let key: [u8; 64] = kani::any();
    unsafe { R1_OK = ok; R1_KEY = key; R1_CALLS = 0; }
    let before = mem.verif_flat(pa);
    let read_sig = access_spec(&regs, LS, b as u128, 64, false);
    let read_msg = access_spec(&regs, LS, c as u128, 32, false);
    let write_key = access_spec(&regs, LS, a as u128, 64, true);
    let (sig0, msg0): ([u8; 64], [u8; 32]) = if read_sig.is_none() && read_msg.is_none() { (rd(&mem, b as usize), rd(&mem, c as usize)) } else { ([0; 64], [0; 32]) };
    let mut vm = mk_vm(regs, mem, gas);
    let res = if k1 { op::ECK1::new(rid(0x10), rid(0x11), rid(0x12)).execute(&mut vm) } else { op::ECR1::new(rid(0x10), rid(0x11), rid(0x12)).execute(&mut vm) };
    if let Some(mut exp) = charge(&regs, &vm.registers, &res, cost, probe) {
        let refuse = read_sig.or(read_msg).or(write_key);
        match refuse {
            Some(reason) => {
                match &res { Err(RuntimeError::Recoverable(r)) => assert!(*r == reason), _ => assert!(false, "must panic") }
                assert!(vm.registers[probe] == exp[probe]);
                assert!(vm.memory.verif_flat(pa) == before, "refused step writes nothing");
                kani::cover!(true, "memory access refused");
            }
            None => {
                assert!(matches!(res, Ok(ExecuteState::Proceed)));
                unsafe {
                    assert!(R1_CALLS == 1);
                    assert!(R1_SEEN_SIG == sig0 && R1_SEEN_MSG == msg0, "the library is asked about exactly the bytes in memory");
                }
                exp[R_ERR] = if ok { 0 } else { 1 };
                exp[R_PC] = regs[R_PC] + 4;
                assert!(vm.registers[probe] == exp[probe]);
                let a = a as usize;
                if pa >= a && pa < a + 64 {
                    assert!(vm.memory.verif_flat(pa) == Some(if ok { key[pa - a] } else { 0 }));
                } else {
                    assert!(vm.memory.verif_flat(pa) == before, "nothing else changes");
                }
                kani::cover!(ok, "recovered key written");
                kani::cover!(!ok, "failure zeroes the destination and sets $err");
            }
        }
    }
    core::mem::forget(vm);
}
ch!(c17_ecr1, { recover_case(false) });
ch!(c17_eck1, { recover_case(true) });

ch!(c17_ed19, {
    let (mut regs, mem) = any_mem_regs();
    let mut gas = any_gas_costs();
    // the unit arithmetic of dependent costs is C26's subject; here the per-unit part is zero
    gas.ed19 = DependentCost::HeavyOperation { base: kani::any(), gas_per_unit: 0 };
    let dep = gas.ed19;
    let (a, b, c, l): (Word, Word, Word, Word) = (kani::any(), kani::any(), kani::any(), kani::any());
    regs[0x10] = a; regs[0x11] = b; regs[0x12] = c; regs[0x13] = l;
    let probe: usize = kani::any();
    kani::assume(probe < 64);
    let pa: usize = kani::any();
    let ok: bool = kani::any();
    unsafe { ED_OK = ok; ED_CALLS = 0; }
    let before = mem.verif_flat(pa);
    let len = if l == 0 { 32 } else { l }; // documented backwards-compatibility rule
    let cost = dep.resolve(len);
    let r_key = access_spec(&regs, LS, a as u128, 32, false);
    let r_sig = access_spec(&regs, LS, b as u128, 64, false);
    let r_msg = access_spec(&regs, LS, c as u128, len as u128, false);
    let (key0, sig0): ([u8; 32], [u8; 64]) = if r_key.is_none() && r_sig.is_none() { (rd(&mem, a as usize), rd(&mem, b as usize)) } else { ([0; 32], [0; 64]) };
    let first = if r_msg.is_none() && len > 0 { mem.verif_flat(c as usize).unwrap() } else { 0 };
    let mut vm = mk_vm(regs, mem, gas);
    let res = op::ED19::new(rid(0x10), rid(0x11), rid(0x12), rid(0x13)).execute(&mut vm);
    if let Some(mut exp) = charge(&regs, &vm.registers, &res, cost, probe) {
        match r_key.or(r_sig).or(r_msg) {
            Some(reason) => {
                match &res { Err(RuntimeError::Recoverable(r)) => assert!(*r == reason), _ => assert!(false, "must panic") }
                assert!(vm.registers[probe] == exp[probe]);
                kani::cover!(true, "memory access refused");
            }
            None => {
                assert!(matches!(res, Ok(ExecuteState::Proceed)));
                unsafe {
                    assert!(ED_CALLS == 1);
                    assert!(ED_SEEN_KEY == key0 && ED_SEEN_SIG == sig0 && ED_SEEN_LEN == len as usize && ED_SEEN_FIRST == first);
                }
                exp[R_ERR] = if ok { 0 } else { 1 };
                exp[R_PC] = regs[R_PC] + 4;
                assert!(vm.registers[probe] == exp[probe]);
                kani::cover!(ok && l == 0, "accepted, legacy zero length = 32");
                kani::cover!(!ok, "rejected sets $err");
            }
        }
    }
    assert!(vm.memory.verif_flat(pa) == before, "ED19 never writes memory");
    core::mem::forget(vm);
});
