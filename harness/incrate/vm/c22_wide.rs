// C22 — wide-integer instructions (128-bit at full width; zero-divisor family for all widths).
use super::*;
use super::c21_alu::charge;
use super::memops::{access_spec, any_state, St, LS};

fn rid(i: usize) -> RegId { RegId::new(i as u8) }

macro_rules! wh {
    ($name:ident, $body:block) => {
        #[kani::proof]
        #[kani::unwind(70)]
        #[kani::stub(crate::constraints::reg_key::split_registers, split_registers_model)]
        #[kani::stub(core::result::Result::expect, expect_model)]
        #[kani::stub(core::result::Result::unwrap, unwrap_model)]
        pub fn $name() $body
    };
}

/// big-endian u128 at `addr` (caller has checked readability)
fn be128(m: &MemoryInstance, addr: usize) -> u128 {
    let mut v: u128 = 0;
    let mut k = 0;
    while k < 16 { v = (v << 8) | m.verif_flat(addr + k).unwrap() as u128; k += 1; }
    v
}
fn expect_panic<E>(res: &Result<ExecuteState, RuntimeError<E>>, reason: PanicReason) {
    match res { Err(RuntimeError::Recoverable(r)) => assert!(*r == reason), _ => assert!(false, "expected panic") }
}

// WDCM: compare, result to register.  Mode and indirection are harness constants.
macro_rules! wdcm {
    ($name:ident, $mode:literal, $indirect:literal) => {
        wh!($name, {
            let (i, mem) = any_state();
            let cost = i.gas.wdcm;
            let (b, c) = (i.src(i.rb, cost), i.src(i.rc, cost));
            let before = mem.verif_flat(i.a);
            let rb_ok = access_spec(&i.regs, LS, b as u128, 16, false);
            let rc_ok = if $indirect { access_spec(&i.regs, LS, c as u128, 16, false) } else { None };
            let lhs = if rb_ok.is_none() { be128(&mem, b as usize) } else { 0 };
            let rhs = if $indirect { if rb_ok.is_none() && rc_ok.is_none() { be128(&mem, c as usize) } else { 0 } } else { c as u128 };
            let imm: u8 = $mode | (($indirect as u8) << 5);
            let mut vm = mk_vm(i.regs, mem, i.gas.clone());
            let res = op::WDCM::new(rid(i.ra), rid(i.rb), rid(i.rc), Imm06::new(imm)).execute(&mut vm);
            if let Some(mut exp) = charge(&i.regs, &vm.registers, &res, cost, i.probe) {
                if i.ra < VM_REGISTER_SYSTEM_COUNT {
                    expect_panic(&res, PanicReason::ReservedRegisterNotWritable);
                } else if let Some(r) = rb_ok { expect_panic(&res, r); kani::cover!(true, "lhs unreadable");
                } else if let Some(r) = rc_ok { expect_panic(&res, r);
                } else {
                    assert!(matches!(res, Ok(ExecuteState::Proceed)));
                    let v: Word = match $mode {
                        0 => (lhs == rhs) as Word, 1 => (lhs != rhs) as Word, 2 => (lhs < rhs) as Word, 3 => (lhs > rhs) as Word,
                        4 => (lhs <= rhs) as Word, 5 => (lhs >= rhs) as Word, _ => lhs.leading_zeros() as Word,
                    };
                    exp[i.ra] = v; exp[R_OF] = 0; exp[R_ERR] = 0; exp[R_PC] = i.regs[R_PC] + 4;
                    kani::cover!(v != 0, "compare true / nonzero");
                    kani::cover!(v == 0, "compare false / zero");
                }
                assert!(vm.registers[i.probe] == exp[i.probe]);
            }
            assert!(vm.memory.verif_flat(i.a) == before);
            core::mem::forget(vm);
        });
    };
}
wdcm!(c22_wdcm_eq_ind, 0, true);   wdcm!(c22_wdcm_eq_dir, 0, false);
wdcm!(c22_wdcm_ne_ind, 1, true);   wdcm!(c22_wdcm_lt_ind, 2, true);   wdcm!(c22_wdcm_lt_dir, 2, false);
wdcm!(c22_wdcm_gt_ind, 3, true);   wdcm!(c22_wdcm_lte_ind, 4, true);  wdcm!(c22_wdcm_gte_dir, 5, false);
wdcm!(c22_wdcm_lzc_ind, 6, true);

// invalid immediates of the compare/op/mul/div families (concrete representatives: a symbolic
// immediate makes CBMC explore every valid mode as well)
macro_rules! invalid_imm {
    ($name:ident, $Op:ident, $gas:ident, [$($imm:literal),*]) => {
        wh!($name, {
            $(
            {
                let (mut i, mem) = any_state();
                i.ra = 0x10; i.rb = 0x11; i.rc = 0x12; // concrete ids: they share bytes with the immediate
                let cost = i.gas.$gas;
                let before = mem.verif_flat(i.a);
                let mut vm = mk_vm(i.regs, mem, i.gas.clone());
                let res = op::$Op::new(rid(i.ra), rid(i.rb), rid(i.rc), Imm06::new($imm)).execute(&mut vm);
                if let Some(exp) = charge(&i.regs, &vm.registers, &res, cost, i.probe) {
                    expect_panic(&res, PanicReason::InvalidImmediateValue);
                    assert!(vm.registers[i.probe] == exp[i.probe]);
                    kani::cover!(true, "invalid immediate refused");
                }
                assert!(vm.memory.verif_flat(i.a) == before);
                core::mem::forget(vm);
            }
            )*
        });
    };
}
invalid_imm!(c22_invalid_imm_wdcm, WDCM, wdcm, [7, 8, 0x18, 0x27]);
invalid_imm!(c22_invalid_imm_wqcm, WQCM, wqcm, [7, 0x10]);
invalid_imm!(c22_invalid_imm_wdop, WDOP, wdop, [8, 31, 0x28]);
invalid_imm!(c22_invalid_imm_wqop, WQOP, wqop, [9, 0x30]);
invalid_imm!(c22_invalid_imm_wdml, WDML, wdml, [1, 0x0f, 0x31]);
invalid_imm!(c22_invalid_imm_wqml, WQML, wqml, [2, 0x2f]);

// WDOP: lhs from memory, rhs direct/indirect, result written big-endian to owned memory at $rA
macro_rules! wdop {
    ($name:ident, $opk:literal, $indirect:literal, $can_overflow:literal) => {
        wh!($name, {
            let (i, mem) = any_state();
            let cost = i.gas.wdop;
            let (dst, b, c) = (i.src(i.ra, cost), i.src(i.rb, cost), i.src(i.rc, cost));
            let before = mem.verif_flat(i.a);
            let rb_ok = access_spec(&i.regs, LS, b as u128, 16, false);
            let rc_ok = if $indirect { access_spec(&i.regs, LS, c as u128, 16, false) } else { None };
            let lhs = if rb_ok.is_none() { be128(&mem, b as usize) } else { 0 };
            let rhs = if $indirect { if rb_ok.is_none() && rc_ok.is_none() { be128(&mem, c as usize) } else { 0 } } else { c as u128 };
            let imm: u8 = $opk | (($indirect as u8) << 5);
            let mut vm = mk_vm(i.regs, mem, i.gas.clone());
            let res = op::WDOP::new(rid(i.ra), rid(i.rb), rid(i.rc), Imm06::new(imm)).execute(&mut vm);
            if let Some(mut exp) = charge(&i.regs, &vm.registers, &res, cost, i.probe) {
                let (value, overflow): (u128, bool) = match $opk {
                    0 => (lhs.wrapping_add(rhs), lhs.checked_add(rhs).is_none()),
                    1 => (lhs.wrapping_sub(rhs), lhs < rhs),
                    2 => (!lhs, false), 3 => (lhs | rhs, false), 4 => (lhs ^ rhs, false), 5 => (lhs & rhs, false),
                    6 => (if rhs < 128 { lhs << rhs } else { 0 }, false),
                    _ => (if rhs < 128 { lhs >> rhs } else { 0 }, false),
                };
                if let Some(r) = rb_ok { expect_panic(&res, r); assert!(vm.memory.verif_flat(i.a) == before);
                } else if let Some(r) = rc_ok { expect_panic(&res, r); assert!(vm.memory.verif_flat(i.a) == before);
                } else if overflow && !flag_wrapping(i.regs[R_FLAG]) {
                    expect_panic(&res, PanicReason::ArithmeticOverflow); assert!(vm.memory.verif_flat(i.a) == before);
                    if $can_overflow { kani::cover!(true, "overflow panic"); } else { assert!(false, "no overflow possible"); }
                } else if let Some(r) = access_spec(&i.regs, LS, dst as u128, 16, true) {
                    expect_panic(&res, r); assert!(vm.memory.verif_flat(i.a) == before);
                    kani::cover!(r == PanicReason::MemoryOwnership, "destination not owned");
                    // $of / $err may already have been updated when the write is refused: only the
                    // memory and the non-flag registers are pinned here
                    exp[R_OF] = vm.registers[R_OF]; exp[R_ERR] = vm.registers[R_ERR];
                } else {
                    assert!(matches!(res, Ok(ExecuteState::Proceed)));
                    exp[R_OF] = overflow as Word; exp[R_ERR] = 0; exp[R_PC] = i.regs[R_PC] + 4;
                    let a = i.a as u128;
                    if a >= dst as u128 && a < dst as u128 + 16 {
                        let k = (a - dst as u128) as u32;
                        assert!(vm.memory.verif_flat(i.a) == Some((value >> (8 * (15 - k))) as u8));
                        kani::cover!(true, "result byte written");
                    } else { assert!(vm.memory.verif_flat(i.a) == before); }
                    if $can_overflow { kani::cover!(overflow, "wrapped result with $of = 1"); }
                }
                assert!(vm.registers[i.probe] == exp[i.probe]);
            }
            core::mem::forget(vm);
        });
    };
}
wdop!(c22_wdop_add_ind, 0, true, true);   wdop!(c22_wdop_add_dir, 0, false, true);
wdop!(c22_wdop_sub_ind, 1, true, true);   wdop!(c22_wdop_sub_dir, 1, false, true);
wdop!(c22_wdop_not, 2, false, false);     wdop!(c22_wdop_or_ind, 3, true, false);
wdop!(c22_wdop_xor_dir, 4, false, false); wdop!(c22_wdop_and_ind, 5, true, false);
wdop!(c22_wdop_shl_dir, 6, false, false); wdop!(c22_wdop_shl_ind, 6, true, false);
wdop!(c22_wdop_shr_dir, 7, false, false);

// Gas charge and early error path of the division-like and multiplication instructions (all
// widths): the operand pointers are the concrete value u64::MAX, so the first operand fetch fails
// with MemoryOverflow right after the gas charge and the 256/512-bit arithmetic (out of reach for
// bit-blasting) is never entered.  Decides: the charged schedule entry, OutOfGas handling, no state
// change besides gas on the error path.
macro_rules! gas_only {
    ($name:ident, $Op:ident, $gas:ident, |$i:ident| [$($arg:expr),*]) => {
        wh!($name, {
            let (mut $i, mem) = any_state();
            // all four register ids concrete: they share bytes in the packed instruction, and one
            // symbolic id makes its neighbours (hence the operand pointers) symbolic for CBMC
            $i.ra = 0x10; $i.rb = 0x11; $i.rc = 0x12; $i.rd = 0x13;
            $i.regs[0x11] = u64::MAX; $i.regs[0x12] = u64::MAX; $i.regs[0x13] = u64::MAX;
            let cost = $i.gas.$gas;
            let before = mem.verif_flat($i.a);
            let mut vm = mk_vm($i.regs, mem, $i.gas.clone());
            let res = op::$Op::new($($arg),*).execute(&mut vm);
            if let Some(exp) = charge(&$i.regs, &vm.registers, &res, cost, $i.probe) {
                expect_panic(&res, PanicReason::MemoryOverflow);
                assert!(vm.registers[$i.probe] == exp[$i.probe]);
                kani::cover!(true, "charged, then operand fetch refused");
            } else { kani::cover!(true, "out of gas"); }
            assert!(vm.memory.verif_flat($i.a) == before);
            core::mem::forget(vm);
        });
    };
}
gas_only!(c22_gas_wdml, WDML, wdml, |i| [rid(i.ra), rid(i.rb), rid(i.rc), Imm06::new(0x30)]);
gas_only!(c22_gas_wqml, WQML, wqml, |i| [rid(i.ra), rid(i.rb), rid(i.rc), Imm06::new(0x30)]);
gas_only!(c22_gas_wddv, WDDV, wddv, |i| [rid(i.ra), rid(i.rb), rid(i.rc), Imm06::new(0x20)]);
gas_only!(c22_gas_wqdv, WQDV, wqdv, |i| [rid(i.ra), rid(i.rb), rid(i.rc), Imm06::new(0x20)]);
gas_only!(c22_gas_wdmd, WDMD, wdmd, |i| [rid(i.ra), rid(i.rb), rid(i.rc), rid(i.rd)]);
gas_only!(c22_gas_wqmd, WQMD, wqmd, |i| [rid(i.ra), rid(i.rb), rid(i.rc), rid(i.rd)]);
gas_only!(c22_gas_wdam, WDAM, wdam, |i| [rid(i.ra), rid(i.rb), rid(i.rc), rid(i.rd)]);
gas_only!(c22_gas_wqam, WQAM, wqam, |i| [rid(i.ra), rid(i.rb), rid(i.rc), rid(i.rd)]);
gas_only!(c22_gas_wdmm, WDMM, wdmm, |i| [rid(i.ra), rid(i.rb), rid(i.rc), rid(i.rd)]);
gas_only!(c22_gas_wqmm, WQMM, wqmm, |i| [rid(i.ra), rid(i.rb), rid(i.rc), rid(i.rd)]);
gas_only!(c22_gas_wqcm, WQCM, wqcm, |i| [rid(i.ra), rid(i.rb), rid(i.rc), Imm06::new(0x20)]);
gas_only!(c22_gas_wqop, WQOP, wqop, |i| [rid(i.ra), rid(i.rb), rid(i.rc), Imm06::new(0x20)]);

// Division by a (direct, concrete) zero divisor: with UNSAFEMATH the result is zero and $err = 1,
// otherwise ArithmeticError.  Register ids concrete, dividend symbolic (from memory), destination
// pointer / flags / schedule symbolic.
macro_rules! div_zero {
    ($name:ident, $Op:ident, $gas:ident, $n:literal) => {
        wh!($name, {
            let (mut i, mem) = any_state();
            i.ra = 0x10; i.rb = 0x11; i.rc = 0x12;
            i.regs[0x12] = 0;          // direct rhs = 0
            i.regs[0x11] = 0;          // lhs read from address 0 (inside the initialised stack)
            let cost = i.gas.$gas;
            let dst = i.regs[0x10];
            let before = mem.verif_flat(i.a);
            let mut vm = mk_vm(i.regs, mem, i.gas.clone());
            let res = op::$Op::new(rid(i.ra), rid(i.rb), rid(i.rc), Imm06::new(0)).execute(&mut vm);
            if let Some(mut exp) = charge(&i.regs, &vm.registers, &res, cost, i.probe) {
                if !flag_unsafemath(i.regs[R_FLAG]) {
                    expect_panic(&res, PanicReason::ArithmeticError);
                    assert!(vm.memory.verif_flat(i.a) == before);
                    kani::cover!(true, "division by zero panics");
                } else if let Some(r) = access_spec(&i.regs, LS, dst as u128, $n, true) {
                    expect_panic(&res, r);
                    assert!(vm.memory.verif_flat(i.a) == before);
                    exp[R_OF] = vm.registers[R_OF]; exp[R_ERR] = vm.registers[R_ERR];
                } else {
                    assert!(matches!(res, Ok(ExecuteState::Proceed)));
                    exp[R_OF] = 0; exp[R_ERR] = 1; exp[R_PC] = i.regs[R_PC] + 4;
                    let a = i.a as u128;
                    if a >= dst as u128 && a < dst as u128 + $n { assert!(vm.memory.verif_flat(i.a) == Some(0)); kani::cover!(true, "zero result written, $err = 1"); }
                    else { assert!(vm.memory.verif_flat(i.a) == before); }
                }
                assert!(vm.registers[i.probe] == exp[i.probe]);
            }
            core::mem::forget(vm);
        });
    };
}
div_zero!(c22_wddv_by_zero, WDDV, wddv, 16);
div_zero!(c22_wqdv_by_zero, WQDV, wqdv, 32);
