// C36 — storage reads honour the read contract for every offset and length (MemoryStorage).
use super::*;
use crate::storage::{BlobData, ContractsRawCode, ContractsState, ContractsStateKey};
use fuel_storage::{StorageRead, StorageReadError, StorageSize, StorageWrite};
use fuel_types::{BlobId, Bytes32};

macro_rules! sh {
    ($name:ident, $body:block) => {
        #[kani::proof]
        #[kani::unwind(20)]
        #[kani::stub(core::result::Result::expect, expect_model)]
        #[kani::stub(core::result::Result::unwrap, unwrap_model)]
        pub fn $name() $body
    };
}

/// One stored value of N symbolic bytes under `key`; buffer of M bytes pre-filled with symbolic
/// garbage; `offset: usize` unrestricted.  One harness per read flavour (a single harness doing all
/// lookups exhausts 12 GB on the BTreeMap code).
macro_rules! reads {
    ($exact:ident, $zerofill:ident, $misc:ident, $Table:ty, $key:expr, $other:expr, $n:literal, $m:literal) => {
        sh!($exact, {
            let mut st = MemoryStorage::new(Default::default(), ContractId::zeroed());
            let key = $key;
            let value: [u8; $n] = kani::any();
            <MemoryStorage as StorageWrite<$Table>>::write_bytes(&mut st, &key, &value).unwrap();
            let offset: usize = kani::any();
            let garbage: [u8; $m] = kani::any();
            let k: usize = kani::any();
            kani::assume(k < core::cmp::max($m, 1));
            let mut buf = garbage;
            let r = <MemoryStorage as StorageRead<$Table>>::read_exact(&st, &key, offset, &mut buf).unwrap();
            let fits = match offset.checked_add($m) { Some(e) => e <= $n, None => false };
            if fits {
                assert!(r == Ok($n));
                if $m > 0 { assert!(buf[k] == value[offset + k]); }
                kani::cover!(true, "exact read succeeds");
            } else {
                assert!(r == Err(StorageReadError::OutOfBounds));
                if $m > 0 { assert!(buf[k] == garbage[k]); }
                kani::cover!(offset > $n, "offset beyond the value");
            }
            core::mem::forget(st);
        });
        sh!($zerofill, {
            let mut st = MemoryStorage::new(Default::default(), ContractId::zeroed());
            let key = $key;
            let value: [u8; $n] = kani::any();
            <MemoryStorage as StorageWrite<$Table>>::write_bytes(&mut st, &key, &value).unwrap();
            let offset: usize = kani::any();
            let garbage: [u8; $m] = kani::any();
            let k: usize = kani::any();
            kani::assume(k < core::cmp::max($m, 1));
            let mut buf = garbage;
            let r = <MemoryStorage as StorageRead<$Table>>::read_zerofill(&st, &key, offset, &mut buf).unwrap();
            if offset > $n {
                assert!(r == Err(StorageReadError::OutOfBounds));
                if $m > 0 { assert!(buf[k] == garbage[k]); }
                kani::cover!(true, "offset beyond the value refused");
            } else {
                assert!(r == Ok($n));
                if $m > 0 {
                    if offset + k < $n { assert!(buf[k] == value[offset + k]); kani::cover!(true, "copied byte"); }
                    else { assert!(buf[k] == 0); kani::cover!(true, "zero-filled byte"); }
                }
            }
            core::mem::forget(st);
        });
        sh!($misc, {
            let mut st = MemoryStorage::new(Default::default(), ContractId::zeroed());
            let key = $key;
            let other = $other;
            let value: [u8; $n] = kani::any();
            <MemoryStorage as StorageWrite<$Table>>::write_bytes(&mut st, &key, &value).unwrap();
            let offset: usize = kani::any();
            let garbage: [u8; $m] = kani::any();
            let k: usize = kani::any();
            kani::assume(k < core::cmp::max($m, 1));
            let mut buf = garbage;
            assert!(<MemoryStorage as StorageRead<$Table>>::read_exact(&st, &other, offset, &mut buf).unwrap() == Err(StorageReadError::KeyNotFound));
            if $m > 0 { assert!(buf[k] == garbage[k]); }
            kani::cover!(true, "missing key reported");
            core::mem::forget(st);
        });
    };
}
fn cid(b: u8) -> ContractId { ContractId::from([b; 32]) }
fn skey(b: u8) -> ContractsStateKey { ContractsStateKey::new(&cid(1), &Bytes32::from([b; 32])) }
fn bid(b: u8) -> BlobId { BlobId::from([b; 32]) }

reads!(c36_code_exact_n5_m3, c36_code_zerofill_n5_m3, c36_code_misc_n5_m3, ContractsRawCode, cid(1), cid(2), 5, 3);
reads!(c36_code_exact_n0_m2, c36_code_zerofill_n0_m2, c36_code_misc_n0_m2, ContractsRawCode, cid(1), cid(2), 0, 2);
reads!(c36_code_exact_n4_m0, c36_code_zerofill_n4_m0, c36_code_misc_n4_m0, ContractsRawCode, cid(1), cid(2), 4, 0);
reads!(c36_state_exact_n5_m3, c36_state_zerofill_n5_m3, c36_state_misc_n5_m3, ContractsState, skey(1), skey(2), 5, 3);
reads!(c36_blob_exact_n8_m1, c36_blob_zerofill_n8_m1, c36_blob_misc_n8_m1, BlobData, bid(1), bid(2), 8, 1);
