// C31 — reuse independence reduced to: the state produced by initialisation does not depend on
// the previous state of the interpreter.  The real init_predicate -> init_inner runs on a DIRTY
// interpreter (symbolic registers, dirty memory incl. heap, a stale call frame, stale input-contract
// set / output index map / owner pointer / panic context) and on a fresh one; every observable field
// must agree.  Also decides what C30 and C05 need from initialisation: the input-contract set is
// exactly the contract inputs of THIS transaction, and the owner pointer follows the specification.
use super::*;
use crate::call::CallFrame;
use crate::predicate::RuntimePredicate;
use fuel_tx::{field::Inputs, policies::Policies, Input, Transaction, TxPointer, UtxoId};
use fuel_types::{Address, AssetId, BlockHeight, Bytes32, canonical::Serialize};

const MAX_INPUTS: u16 = 3;
// id (32) + base asset id (32) + balances (MAX_INPUTS * 40) + tx size word (8)
const TX_OFFSET: usize = 32 + 32 + (MAX_INPUTS as usize) * 40 + 8;
const A: Address = Address::new([0xA1; 32]);
const B: Address = Address::new([0xB2; 32]);
const DST: ContractId = ContractId::new([0x22; 32]);
const OTHER: ContractId = ContractId::new([0xEE; 32]);

pub(crate) fn toy_hash<Bb: AsRef<[u8]>>(data: Bb) -> Bytes32 {
    let d = data.as_ref();
    let mut w = [0u8; 32];
    w[0] = d.len() as u8;
    w[31] = 0xC3;
    Bytes32::new(w)
}
pub(crate) fn hasher_input_noop<Bb: AsRef<[u8]>>(_h: &mut fuel_crypto::Hasher, _data: Bb) {}
pub(crate) fn hasher_finalize_const(_h: fuel_crypto::Hasher) -> Bytes32 { Bytes32::new([0x1D; 32]) }

fn params(gas: GasCostsValuesV7) -> InterpreterParams {
    let mut p = params_with(gas);
    p.max_inputs = MAX_INPUTS;
    p.tx_offset = TX_OFFSET;
    p
}

fn utxo() -> UtxoId { UtxoId::new(Bytes32::new(kani::any()), kani::any()) }
fn txp() -> TxPointer { TxPointer::new(BlockHeight::from(kani::any::<u32>()), kani::any()) }
fn pred_input(owner: Address) -> Input {
    Input::coin_predicate(utxo(), owner, kani::any(), AssetId::new(kani::any()), txp(), kani::any(),
                          alloc::vec![kani::any(), kani::any(), kani::any(), kani::any()], alloc::vec![kani::any()])
}
fn signed_input(owner: Address) -> Input {
    Input::coin_signed(utxo(), owner, kani::any(), AssetId::new(kani::any()), txp(), kani::any())
}

fn dirty_vm() -> Vm {
    let mut stack: Vec<u8> = Vec::with_capacity(24);
    let mut i = 0;
    while i < 24 { stack.push(kani::any()); i += 1; }
    let mut heap: Vec<u8> = Vec::with_capacity(16);
    let mut i = 0;
    while i < 16 { heap.push(kani::any()); i += 1; }
    let hp: usize = kani::any();
    kani::assume(hp <= MEM_SIZE && hp >= MEM_SIZE - 16);
    let mem = MemoryInstance::verif_from_parts(stack, heap, hp);
    let regs: [Word; VM_REGISTER_COUNT] = kani::any();
    let mut vm = mk_vm(regs, mem, GasCostsValuesV7::free());
    vm.interpreter_params = params(GasCostsValuesV7::free());
    let saved: [Word; VM_REGISTER_COUNT] = kani::any();
    vm.frames.push(CallFrame::new(OTHER, AssetId::zeroed(), saved, 0, kani::any(), kani::any()).unwrap());
    vm.input_contracts.insert(OTHER);
    vm.input_contracts_index_to_output_index.insert(kani::any(), kani::any());
    vm.owner_ptr = if kani::any() { Some(kani::any()) } else { None };
    vm.panic_context = PanicContext::ContractId(OTHER);
    vm
}

fn fresh_vm() -> Vm {
    let mut vm = mk_vm([0; VM_REGISTER_COUNT], MemoryInstance::new(), GasCostsValuesV7::free());
    vm.interpreter_params = params(GasCostsValuesV7::free());
    vm
}

/// K5: RuntimeBalances::to_vm iterates its hashbrown map.  For the EMPTY balance set used here the
/// iteration does nothing; the model performs the rest of to_vm (grow the stack by the balance table,
/// move $ssp, store the balances) without touching the map.
pub(crate) fn to_vm_model<M, S, Tx, Ecal, V>(this: crate::interpreter::RuntimeBalances, vm: &mut Interpreter<M, S, Tx, Ecal, V>)
where
    M: crate::interpreter::Memory,
    Tx: crate::interpreter::ExecutableTransaction,
{
    let len = (vm.max_inputs() as usize).saturating_mul(40) as Word; // BALANCE_ENTRY_SIZE = asset id + word
    let new_ssp = vm.registers[R_SSP].checked_add(len).unwrap();
    vm.memory_mut().grow_stack(new_ssp).unwrap();
    vm.registers[R_SSP] = new_ssp;
    vm.balances = this;
}

macro_rules! ih {
    ($name:ident, $body:block) => {
        #[kani::proof]
        #[kani::unwind(70)]
        #[kani::stub(crate::constraints::reg_key::split_registers, split_registers_model)]
        #[kani::stub(core::result::Result::expect, expect_model)]
        #[kani::stub(core::result::Result::unwrap, unwrap_model)]
        #[kani::stub(crate::error::Bug::new, crate::error::Bug::verif_new)]
        #[kani::stub(fuel_crypto::Hasher::hash, toy_hash)]
        #[kani::stub(fuel_crypto::Hasher::input, hasher_input_noop)]
        #[kani::stub(fuel_crypto::Hasher::finalize, hasher_finalize_const)]
        #[kani::stub(crate::interpreter::RuntimeBalances::to_vm, to_vm_model)]
        pub fn $name() $body
    };
}

fn init_case(inputs: Vec<Input>, expect_contracts: &[ContractId], expect_owner_input: Option<usize>) {
    let gas_limit: Word = kani::any();
    let tx = Transaction::script(kani::any(), alloc::vec![kani::any(), kani::any(), kani::any(), kani::any()], Vec::new(),
                                 Policies::new(), inputs, Vec::new(), Vec::new());
    let program = RuntimePredicate::from_tx(&tx, TX_OFFSET, 0).unwrap();
    let ctx = Context::PredicateVerification { program };
    let mut used = dirty_vm();
    let mut fresh = fresh_vm();
    let r1 = used.init_predicate(ctx.clone(), tx.clone(), gas_limit);
    let r2 = fresh.init_predicate(ctx, tx.clone(), gas_limit);
    assert!(r1.is_ok() && r2.is_ok());
    // registers
    let probe: usize = kani::any();
    kani::assume(probe < 64);
    assert!(used.registers[probe] == fresh.registers[probe], "registers do not depend on the previous state");
    assert!(used.registers[R_HP] == VM_MAX_RAM && used.registers[R_SP] == used.registers[R_SSP]);
    assert!(used.registers[R_GGAS] == gas_limit && used.registers[R_CGAS] == gas_limit);
    // memory: the whole flat address space, incl. which addresses are accessible
    let a: usize = kani::any();
    assert!(used.memory.verif_flat(a) == fresh.memory.verif_flat(a), "memory does not depend on the previous state");
    assert!(used.memory.verif_hp() == MEM_SIZE, "no heap survives initialisation");
    // the transaction bytes are where GTF / GM TxStart point
    let tb = tx_prepared_bytes(&tx);
    let k: usize = kani::any();
    kani::assume(k < tb.len());
    assert!(used.memory.verif_flat(TX_OFFSET + k) == Some(tb[k]), "tx bytes at tx_offset");
    // bookkeeping
    assert!(used.frames.is_empty() && used.receipts.len() == 0);
    assert!(used.input_contracts.len() == expect_contracts.len());
    let mut i = 0;
    while i < expect_contracts.len() { assert!(used.input_contracts.contains(&expect_contracts[i])); i += 1; }
    assert!(!used.input_contracts.contains(&OTHER), "stale input contracts are dropped");
    assert!(used.input_contracts_index_to_output_index.is_empty());
    assert!(used.owner_ptr == fresh.owner_ptr);
    match expect_owner_input {
        None => assert!(used.owner_ptr.is_none()),
        Some(idx) => {
            let off = tx.inputs_offset_at(idx).unwrap() + tx.inputs()[idx].repr().owner_offset().unwrap();
            assert!(used.owner_ptr == Some((TX_OFFSET + off) as Word));
        }
    }
    kani::cover!(true, "initialised");
    core::mem::forget(used);
    core::mem::forget(fresh);
    core::mem::forget(tx);
    core::mem::forget(tb);
}

fn tx_prepared_bytes(tx: &Script) -> Vec<u8> {
    use fuel_tx::PrepareSign;
    let mut t = tx.clone();
    t.prepare_sign();
    t.to_bytes()
}

ih!(c31_init_predicate_only, { init_case(alloc::vec![pred_input(A)], &[], Some(0)) });
ih!(c31_init_with_contract_input, {
    let c = Input::contract(utxo(), Bytes32::new(kani::any()), Bytes32::new(kani::any()), txp(), DST);
    init_case(alloc::vec![pred_input(A), c], &[DST], Some(0))
});
// owner detection over three owned inputs whose owners are drawn from {A, B}
ih!(c31_init_owner_three_inputs, {
    let (x, y): (bool, bool) = (kani::any(), kani::any());
    let o2 = if x { A } else { B };
    let o3 = if y { A } else { B };
    let all_same = x && y;
    init_case(alloc::vec![pred_input(A), signed_input(o2), signed_input(o3)], &[], if all_same { Some(0) } else { None })
});

// experiment: cost of one init on a fresh VM with a fully concrete transaction
ih!(x31_fresh_concrete, {
    let tx = Transaction::script(7, alloc::vec![1u8, 2, 3, 4], Vec::new(), Policies::new(),
        alloc::vec![Input::coin_predicate(UtxoId::default(), A, 5, AssetId::zeroed(), TxPointer::default(), 9, alloc::vec![1u8, 2, 3, 4], alloc::vec![7u8])],
        Vec::new(), Vec::new());
    let program = RuntimePredicate::from_tx(&tx, TX_OFFSET, 0).unwrap();
    let mut fresh = fresh_vm();
    let r = fresh.init_predicate(Context::PredicateVerification { program }, tx, 100);
    assert!(r.is_ok());
    assert!(fresh.registers[R_HP] == VM_MAX_RAM);
    core::mem::forget(fresh);
});
