// C21 — register arithmetic and logic instructions follow the specification.
// One harness per opcode: real handler (`op::X::new(..).execute(&mut vm)`: gas charge +
// semantics + inc_pc) against a specification written from the instruction set in wide
// arithmetic.  All registers (incl. destination/source ids), flags, immediates and the gas
// schedule are symbolic.
use super::*;

pub(crate) struct In {
    pub regs: [Word; VM_REGISTER_COUNT],
    pub ra: usize, pub rb: usize, pub rc: usize, pub rd: usize,
    pub imm06: u8, pub imm12: u16, pub imm18: u32,
    pub probe: usize,
    pub gas: GasCostsValuesV7,
    /// cost of the instruction under test (set by the harness before the spec is evaluated)
    pub cost: Word,
}

impl In {
    /// Value of register `r` as seen by the instruction body (after the gas charge of `cost`).
    pub fn src(&self, r: usize) -> Word {
        if r == R_CGAS || r == R_GGAS { self.regs[r].wrapping_sub(self.cost) } else { self.regs[r] }
    }
}

pub(crate) fn any_in() -> In {
    let regs = any_registers();
    kani::assume(regs[R_CGAS] <= regs[R_GGAS]);
    kani::assume(regs[R_PC] < VM_MAX_RAM);
    let (ra, rb, rc, rd): (usize, usize, usize, usize) = (kani::any(), kani::any(), kani::any(), kani::any());
    kani::assume(ra < 64 && rb < 64 && rc < 64 && rd < 64);
    let (imm06, imm12, imm18): (u8, u16, u32) = (kani::any(), kani::any(), kani::any());
    kani::assume(imm06 < 64 && imm12 < 4096 && imm18 < (1 << 18));
    let probe: usize = kani::any();
    kani::assume(probe < 64);
    In { regs, ra, rb, rc, rd, imm06, imm12, imm18, probe, gas: any_gas_costs(), cost: 0 }
}

fn rid(i: usize) -> RegId { RegId::new(i as u8) }

fn overflow128(r: u128, flag: Word) -> Spec {
    if r > Word::MAX as u128 && !flag_wrapping(flag) {
        Spec::Panic(PanicReason::ArithmeticOverflow)
    } else {
        Spec::Write { value: r as u64, of: (r >> 64) as u64, err: 0 }
    }
}
fn sub_spec(b: Word, c: Word, flag: Word) -> Spec {
    if b < c && !flag_wrapping(flag) {
        Spec::Panic(PanicReason::ArithmeticOverflow)
    } else {
        Spec::Write { value: b.wrapping_sub(c), of: if b < c { Word::MAX } else { 0 }, err: 0 }
    }
}
fn set(value: Word) -> Spec { Spec::Write { value, of: 0, err: 0 } }
fn err_or(cond: bool, flag: Word, value: Word) -> Spec {
    if cond {
        if flag_unsafemath(flag) { Spec::Write { value: 0, of: 0, err: 1 } } else { Spec::Panic(PanicReason::ArithmeticError) }
    } else {
        set(value)
    }
}
fn shl(b: Word, c: Word) -> Word { if c < 64 { b << c } else { 0 } }
fn shr(b: Word, c: Word) -> Word { if c < 64 { b >> c } else { 0 } }

/// $name: harness; $Op: opcode type; ($($arg),*): constructor args from `i`; $gas: schedule field;
/// |i, b, c, flag| spec
macro_rules! alu {
    ($name:ident, $Op:ident, [$($arg:expr),*], $gas:ident, |$i:ident| $spec:expr) => {
        alu!($name, $Op, [$($arg),*], $gas, true, |$i| $spec);
    };
    ($name:ident, $Op:ident, [$($arg:expr),*], $gas:ident, $can_panic:literal, |$i:ident| $spec:expr) => {
        #[kani::proof]
        #[kani::unwind(70)]
        #[kani::stub(crate::constraints::reg_key::split_registers, split_registers_model)]
        #[kani::stub(core::result::Result::expect, expect_model)]
        #[kani::stub(core::result::Result::unwrap, unwrap_model)]
        pub fn $name() {
            let mut $i = any_in();
            let cost = $i.gas.$gas;
            $i.cost = cost;
            let spec: Spec = $spec;
            let mut vm = mk_vm($i.regs, MemoryInstance::new(), $i.gas);
            let res = op::$Op::new($($arg),*).execute(&mut vm);
            let br = check_alu_step(&$i.regs, &vm.registers, &res, cost, $i.ra, spec, $i.probe);
            kani::cover!(br == 0, "out of gas");
            kani::cover!(br == 1, "reserved register");
            if $can_panic { kani::cover!(br == 2, "specified panic"); } else { assert!(br != 2); }
            kani::cover!(br == 3, "result written");
            core::mem::forget(vm);
        }
    };
}
// Operands are read after the instruction's gas has been charged (the VM charges first), so a
// source operand naming $cgas / $ggas observes the post-charge value.
macro_rules! rb { ($i:ident) => { $i.src($i.rb) } }
macro_rules! rc { ($i:ident) => { $i.src($i.rc) } }
macro_rules! rd { ($i:ident) => { $i.src($i.rd) } }
macro_rules! fl { ($i:ident) => { $i.regs[R_FLAG] } }
macro_rules! i12 { ($i:ident) => { $i.imm12 as Word } }

alu!(c21_add, ADD, [rid(i.ra), rid(i.rb), rid(i.rc)], add, |i| overflow128(rb!(i) as u128 + rc!(i) as u128, fl!(i)));
alu!(c21_addi, ADDI, [rid(i.ra), rid(i.rb), Imm12::new(i.imm12)], addi, |i| overflow128(rb!(i) as u128 + i12!(i) as u128, fl!(i)));
alu!(c21_sub, SUB, [rid(i.ra), rid(i.rb), rid(i.rc)], sub, |i| sub_spec(rb!(i), rc!(i), fl!(i)));
alu!(c21_subi, SUBI, [rid(i.ra), rid(i.rb), Imm12::new(i.imm12)], subi, |i| sub_spec(rb!(i), i12!(i), fl!(i)));
alu!(c21_mul, MUL, [rid(i.ra), rid(i.rb), rid(i.rc)], mul, |i| overflow128(rb!(i) as u128 * rc!(i) as u128, fl!(i)));
alu!(c21_muli, MULI, [rid(i.ra), rid(i.rb), Imm12::new(i.imm12)], muli, |i| overflow128(rb!(i) as u128 * i12!(i) as u128, fl!(i)));
alu!(c21_and, AND, [rid(i.ra), rid(i.rb), rid(i.rc)], and, false, |i| set(rb!(i) & rc!(i)));
alu!(c21_andi, ANDI, [rid(i.ra), rid(i.rb), Imm12::new(i.imm12)], andi, false, |i| set(rb!(i) & i12!(i)));
alu!(c21_or, OR, [rid(i.ra), rid(i.rb), rid(i.rc)], or, false, |i| set(rb!(i) | rc!(i)));
alu!(c21_ori, ORI, [rid(i.ra), rid(i.rb), Imm12::new(i.imm12)], ori, false, |i| set(rb!(i) | i12!(i)));
alu!(c21_xor, XOR, [rid(i.ra), rid(i.rb), rid(i.rc)], xor, false, |i| set(rb!(i) ^ rc!(i)));
alu!(c21_xori, XORI, [rid(i.ra), rid(i.rb), Imm12::new(i.imm12)], xori, false, |i| set(rb!(i) ^ i12!(i)));
alu!(c21_not, NOT, [rid(i.ra), rid(i.rb)], not, false, |i| set(!rb!(i)));
alu!(c21_sll, SLL, [rid(i.ra), rid(i.rb), rid(i.rc)], sll, false, |i| set(shl(rb!(i), rc!(i))));
alu!(c21_slli, SLLI, [rid(i.ra), rid(i.rb), Imm12::new(i.imm12)], slli, false, |i| set(shl(rb!(i), i12!(i))));
alu!(c21_srl, SRL, [rid(i.ra), rid(i.rb), rid(i.rc)], srl, false, |i| set(shr(rb!(i), rc!(i))));
alu!(c21_srli, SRLI, [rid(i.ra), rid(i.rb), Imm12::new(i.imm12)], srli, false, |i| set(shr(rb!(i), i12!(i))));
alu!(c21_eq, EQ, [rid(i.ra), rid(i.rb), rid(i.rc)], eq, false, |i| set((rb!(i) == rc!(i)) as Word));
alu!(c21_gt, GT, [rid(i.ra), rid(i.rb), rid(i.rc)], gt, false, |i| set((rb!(i) > rc!(i)) as Word));
alu!(c21_lt, LT, [rid(i.ra), rid(i.rb), rid(i.rc)], lt, false, |i| set((rb!(i) < rc!(i)) as Word));
alu!(c21_move, MOVE, [rid(i.ra), rid(i.rb)], move_op, false, |i| set(rb!(i)));
alu!(c21_movi, MOVI, [rid(i.ra), Imm18::new(i.imm18)], movi, false, |i| set(i.imm18 as Word));
