// C21 — register arithmetic and logic instructions follow the specification.
// One harness per opcode: real handler (`op::X::new(..).execute(&mut vm)`: gas charge +
// semantics + inc_pc) against a specification written from the instruction set in wide
// arithmetic.  All registers (incl. destination/source ids), flags, immediates and the gas
// schedule are symbolic.
use super::*;

pub(crate) struct In {
    pub regs: [Word; VM_REGISTER_COUNT],
    pub ra: usize, pub rb: usize, pub rc: usize, pub rd: usize,
    pub imm06: u8, pub imm12: u16, pub imm18: u32,
    pub probe: usize,
    pub gas: GasCostsValuesV7,
    /// cost of the instruction under test (set by the harness before the spec is evaluated)
    pub cost: Word,
}

impl In {
    /// Value of register `r` as seen by the instruction body (after the gas charge of `cost`).
    pub fn src(&self, r: usize) -> Word {
        if r == R_CGAS || r == R_GGAS { self.regs[r].wrapping_sub(self.cost) } else { self.regs[r] }
    }
}

pub(crate) fn any_in() -> In {
    let regs = any_registers();
    kani::assume(regs[R_CGAS] <= regs[R_GGAS]);
    kani::assume(regs[R_PC] < VM_MAX_RAM);
    let (ra, rb, rc, rd): (usize, usize, usize, usize) = (kani::any(), kani::any(), kani::any(), kani::any());
    kani::assume(ra < 64 && rb < 64 && rc < 64 && rd < 64);
    let (imm06, imm12, imm18): (u8, u16, u32) = (kani::any(), kani::any(), kani::any());
    kani::assume(imm06 < 64 && imm12 < 4096 && imm18 < (1 << 18));
    let probe: usize = kani::any();
    kani::assume(probe < 64);
    In { regs, ra, rb, rc, rd, imm06, imm12, imm18, probe, gas: any_gas_costs(), cost: 0 }
}

fn rid(i: usize) -> RegId { RegId::new(i as u8) }

fn overflow128(r: u128, flag: Word) -> Spec {
    if r > Word::MAX as u128 && !flag_wrapping(flag) {
        Spec::Panic(PanicReason::ArithmeticOverflow)
    } else {
        Spec::Write { value: r as u64, of: (r >> 64) as u64, err: 0 }
    }
}
fn sub_spec(b: Word, c: Word, flag: Word) -> Spec {
    if b < c && !flag_wrapping(flag) {
        Spec::Panic(PanicReason::ArithmeticOverflow)
    } else {
        Spec::Write { value: b.wrapping_sub(c), of: if b < c { Word::MAX } else { 0 }, err: 0 }
    }
}
fn set(value: Word) -> Spec { Spec::Write { value, of: 0, err: 0 } }
fn err_or(cond: bool, flag: Word, value: Word) -> Spec {
    if cond {
        if flag_unsafemath(flag) { Spec::Write { value: 0, of: 0, err: 1 } } else { Spec::Panic(PanicReason::ArithmeticError) }
    } else {
        set(value)
    }
}
fn shl(b: Word, c: Word) -> Word { if c < 64 { b << c } else { 0 } }
fn shr(b: Word, c: Word) -> Word { if c < 64 { b >> c } else { 0 } }

/// $name: harness; $Op: opcode type; ($($arg),*): constructor args from `i`; $gas: schedule field;
/// |i, b, c, flag| spec
macro_rules! alu {
    ($name:ident, $Op:ident, [$($arg:expr),*], $gas:ident, |$i:ident| $spec:expr) => {
        alu!($name, $Op, [$($arg),*], $gas, true, |$i| $spec);
    };
    ($name:ident, $Op:ident, [$($arg:expr),*], $gas:ident, $can_panic:literal, |$i:ident| $spec:expr) => {
        #[kani::proof]
        #[kani::unwind(70)]
        #[kani::stub(crate::constraints::reg_key::split_registers, split_registers_model)]
        #[kani::stub(core::result::Result::expect, expect_model)]
        #[kani::stub(core::result::Result::unwrap, unwrap_model)]
        pub fn $name() {
            let mut $i = any_in();
            let cost = $i.gas.$gas;
            $i.cost = cost;
            let spec: Spec = $spec;
            let mut vm = mk_vm($i.regs, MemoryInstance::new(), $i.gas.clone());
            let res = op::$Op::new($($arg),*).execute(&mut vm);
            let br = check_alu_step(&$i.regs, &vm.registers, &res, cost, $i.ra, spec, $i.probe);
            kani::cover!(br == 0, "out of gas");
            // (harnesses that fix the destination id to a writable register cannot reach the
            // reserved-register branch; it is then covered by c21_niop_reserved_register)
            kani::cover!(br == 1 || $i.ra == 0x10, "reserved register refused (or destination fixed to a writable register)");
            if $can_panic { kani::cover!(br == 2, "specified panic"); } else { assert!(br != 2); }
            kani::cover!(br == 3, "result written");
            core::mem::forget(vm);
        }
    };
}
// Operands are read after the instruction's gas has been charged (the VM charges first), so a
// source operand naming $cgas / $ggas observes the post-charge value.
macro_rules! rb { ($i:ident) => { $i.src($i.rb) } }
macro_rules! rc { ($i:ident) => { $i.src($i.rc) } }
macro_rules! rd { ($i:ident) => { $i.src($i.rd) } }
macro_rules! fl { ($i:ident) => { $i.regs[R_FLAG] } }
macro_rules! i12 { ($i:ident) => { $i.imm12 as Word } }

alu!(c21_add, ADD, [rid(i.ra), rid(i.rb), rid(i.rc)], add, |i| overflow128(rb!(i) as u128 + rc!(i) as u128, fl!(i)));
alu!(c21_addi, ADDI, [rid(i.ra), rid(i.rb), Imm12::new(i.imm12)], addi, |i| overflow128(rb!(i) as u128 + i12!(i) as u128, fl!(i)));
alu!(c21_sub, SUB, [rid(i.ra), rid(i.rb), rid(i.rc)], sub, |i| sub_spec(rb!(i), rc!(i), fl!(i)));
alu!(c21_subi, SUBI, [rid(i.ra), rid(i.rb), Imm12::new(i.imm12)], subi, |i| sub_spec(rb!(i), i12!(i), fl!(i)));
alu!(c21_and, AND, [rid(i.ra), rid(i.rb), rid(i.rc)], and, false, |i| set(rb!(i) & rc!(i)));
alu!(c21_andi, ANDI, [rid(i.ra), rid(i.rb), Imm12::new(i.imm12)], andi, false, |i| set(rb!(i) & i12!(i)));
alu!(c21_or, OR, [rid(i.ra), rid(i.rb), rid(i.rc)], or, false, |i| set(rb!(i) | rc!(i)));
alu!(c21_ori, ORI, [rid(i.ra), rid(i.rb), Imm12::new(i.imm12)], ori, false, |i| set(rb!(i) | i12!(i)));
alu!(c21_xor, XOR, [rid(i.ra), rid(i.rb), rid(i.rc)], xor, false, |i| set(rb!(i) ^ rc!(i)));
alu!(c21_xori, XORI, [rid(i.ra), rid(i.rb), Imm12::new(i.imm12)], xori, false, |i| set(rb!(i) ^ i12!(i)));
alu!(c21_not, NOT, [rid(i.ra), rid(i.rb)], not, false, |i| set(!rb!(i)));
alu!(c21_sll, SLL, [rid(i.ra), rid(i.rb), rid(i.rc)], sll, false, |i| set(shl(rb!(i), rc!(i))));
alu!(c21_slli, SLLI, [rid(i.ra), rid(i.rb), Imm12::new(i.imm12)], slli, false, |i| set(shl(rb!(i), i12!(i))));
alu!(c21_srl, SRL, [rid(i.ra), rid(i.rb), rid(i.rc)], srl, false, |i| set(shr(rb!(i), rc!(i))));
alu!(c21_srli, SRLI, [rid(i.ra), rid(i.rb), Imm12::new(i.imm12)], srli, false, |i| set(shr(rb!(i), i12!(i))));
alu!(c21_eq, EQ, [rid(i.ra), rid(i.rb), rid(i.rc)], eq, false, |i| set((rb!(i) == rc!(i)) as Word));
alu!(c21_gt, GT, [rid(i.ra), rid(i.rb), rid(i.rc)], gt, false, |i| set((rb!(i) > rc!(i)) as Word));
alu!(c21_lt, LT, [rid(i.ra), rid(i.rb), rid(i.rc)], lt, false, |i| set((rb!(i) < rc!(i)) as Word));
alu!(c21_move, MOVE, [rid(i.ra), rid(i.rb)], move_op, false, |i| set(rb!(i)));
alu!(c21_movi, MOVI, [rid(i.ra), Imm18::new(i.imm18)], movi, false, |i| set(i.imm18 as Word));

// ---- multiplication at full width: the specification uses the same primitive operator (u128 `*`)
// as the handler, so the solver compares how the product is *used* (result, $of, panic rule).
alu!(c21_mul_full, MUL, [rid(i.ra), rid(i.rb), rid(i.rc)], mul, |i| overflow128((rb!(i) as u128).wrapping_mul(rc!(i) as u128), fl!(i)));
alu!(c21_muli, MULI, [rid(i.ra), rid(i.rb), Imm12::new(i.imm12)], muli, |i| overflow128((rb!(i) as u128).wrapping_mul(i12!(i) as u128), fl!(i)));
// bounded: both operands < 2^32 (never overflows) ...
alu!(c21_mul_b32, MUL, [rid(i.ra), rid(i.rb), rid(i.rc)], mul, false, |i| {
    kani::assume(rb!(i) < (1 << 32) && rc!(i) < (1 << 32));
    set(rb!(i) * rc!(i))
});
// ... and one operand a power of two with the other at full width (overflow / $of region)
alu!(c21_mul_pow2, MUL, [rid(i.ra), rid(i.rb), rid(i.rc)], mul, |i| {
    let k: u32 = kani::any();
    kani::assume(k < 64 && rc!(i) == 1u64 << k);
    overflow128((rb!(i) as u128) << k, fl!(i))
});

// ---- harnesses whose specification is checked on the post-state (witness form) -------------
/// Like `alu!`, but `$post` (the value the handler wrote to `ra`) is available to the spec, which
/// returns (Spec, bool): the bool is an extra relation that must hold (e.g. q*c <= b < q*c + c).
macro_rules! alu_post {
    ($name:ident, $Op:ident, [$($arg:expr),*], $gas:ident, |$i:ident, $post:ident, $pof:ident| $spec:expr) => {
        #[kani::proof]
        #[kani::unwind(70)]
        #[kani::stub(crate::constraints::reg_key::split_registers, split_registers_model)]
        #[kani::stub(core::result::Result::expect, expect_model)]
        #[kani::stub(core::result::Result::unwrap, unwrap_model)]
        pub fn $name() {
            let mut $i = any_in();
            let cost = $i.gas.$gas;
            $i.cost = cost;
            let mut vm = mk_vm($i.regs, MemoryInstance::new(), $i.gas.clone());
            let res = op::$Op::new($($arg),*).execute(&mut vm);
            let $post = vm.registers[$i.ra];
            let $pof = vm.registers[R_OF];
            let (spec, rel): (Spec, bool) = $spec;
            let br = check_alu_step(&$i.regs, &vm.registers, &res, cost, $i.ra, spec, $i.probe);
            if br == 3 { assert!(rel, "result relation"); }
            kani::cover!(br == 0, "out of gas");
            kani::cover!(br == 1, "reserved register");
            kani::cover!(br == 2, "specified panic");
            kani::cover!(br == 3, "result written");
            core::mem::forget(vm);
        }
    };
}

fn div_spec(b: Word, c: Word, flag: Word, q: Word) -> (Spec, bool) {
    if c == 0 { return (err_or(true, flag, 0), true) }
    // q == floor(b / c)  <=>  q*c <= b  and  b - q*c < c   (64-bit, no divider on the spec side)
    match q.checked_mul(c) { Some(qc) => (set(q), qc <= b && b - qc < c), None => (set(q), false) }
}
fn mod_spec(b: Word, c: Word, flag: Word, r: Word) -> (Spec, bool) {
    if c == 0 { return (err_or(true, flag, 0), true) }
    // r == b mod c  <=>  r < c  and  c divides (b - r): witness quotient from the same operator
    let q = b / c;
    match q.checked_mul(c) { Some(qc) => (set(r), r < c && qc <= b && b - qc == r), None => (set(r), false) }
}
alu_post!(c21_div, DIV, [rid(i.ra), rid(i.rb), rid(i.rc)], div, |i, q, _of| div_spec(rb!(i), rc!(i), fl!(i), q));
alu_post!(c21_divi, DIVI, [rid(i.ra), rid(i.rb), Imm12::new(i.imm12)], divi, |i, q, _of| div_spec(rb!(i), i12!(i), fl!(i), q));
alu_post!(c21_mod, MOD, [rid(i.ra), rid(i.rb), rid(i.rc)], mod_op, |i, r, _of| mod_spec(rb!(i), rc!(i), fl!(i), r));
alu_post!(c21_modi, MODI, [rid(i.ra), rid(i.rb), Imm12::new(i.imm12)], modi, |i, r, _of| mod_spec(rb!(i), i12!(i), fl!(i), r));

/// b^e by repeated multiplication in u128, saturating to "overflow" once above u64::MAX (e <= 8).
fn pow_ref(b: Word, e: Word) -> Option<Word> {
    let mut acc: u128 = 1;
    let mut k = 0;
    while k < 8 {
        if k < e {
            acc = acc * b as u128;
            if acc > Word::MAX as u128 { return None }
        }
        k += 1;
    }
    Some(acc as Word)
}
fn exp_spec(b: Word, e: Word, flag: Word) -> Spec {
    let r = if b < 2 { Some(b_pow_small(b, e)) } else if e > u32::MAX as Word { None } else { pow_ref(b, e) };
    match r {
        Some(v) => Spec::Write { value: v, of: 0, err: 0 },
        None => if flag_wrapping(flag) { Spec::Write { value: 0, of: 1, err: 0 } } else { Spec::Panic(PanicReason::ArithmeticOverflow) },
    }
}
fn b_pow_small(b: Word, e: Word) -> Word { if b == 0 { if e == 0 { 1 } else { 0 } } else { 1 } }

// EXP/EXPI: base < 2^16 and exponent < 8 (bound), plus the closed-form regions (base < 2 with any
// exponent; exponent > u32::MAX with any base).
// (the exponent register id is fixed to 0x12 and its value built as a 3-bit quantity so that the
// handler's square-and-multiply loop has a syntactic bound for CBMC)
alu!(c21_exp_small, EXP, [rid(i.ra), rid(i.rb), rid(i.rc)], exp, |i| {
    i.rc = 0x12;
    let e: u8 = kani::any();
    i.regs[0x12] = (e & 7) as Word;
    kani::assume(rb!(i) < (1 << 16));
    exp_spec(rb!(i), rc!(i), fl!(i))
});
alu!(c21_exp_closed, EXP, [rid(i.ra), rid(i.rb), rid(i.rc)], exp, |i| {
    kani::assume(rb!(i) < 2 || rc!(i) > u32::MAX as Word);
    kani::assume(rc!(i) > u32::MAX as Word || rc!(i) < 8);
    exp_spec(rb!(i), rc!(i), fl!(i))
});
alu!(c21_expi_small, EXPI, [rid(i.ra), rid(i.rb), Imm12::new(i.imm12)], expi, |i| {
    kani::assume(rb!(i) < (1 << 16) && i.imm12 < 8);
    exp_spec(rb!(i), i12!(i), fl!(i))
});

// MLOG: b < 2^16 (bound); result r is the unique value with c^r <= b < c^(r+1).
alu_post!(c21_mlog, MLOG, [rid(i.ra), rid(i.rb), rid(i.rc)], mlog, |i, r, _of| {
    let (b, c) = (rb!(i), rc!(i));
    kani::assume(b < (1 << 16));
    if b == 0 || c <= 1 {
        (err_or(true, fl!(i), 0), true)
    } else {
        // c >= 2 and b < 2^16  =>  r <= 15; powers computed in u128 by at most 17 multiplications
        let mut lo: u128 = 1; // c^r
        let mut k = 0;
        while k < 17 { if (k as Word) < r { lo = lo.saturating_mul(c as u128); } k += 1; }
        let hi = lo.saturating_mul(c as u128);
        (set(r), r <= 15 && lo <= b as u128 && (b as u128) < hi)
    }
});

// MLDV: (b*c)/d with 128-bit intermediate; d == 0 means divide by 2^64.  Bound: b, c, d < 2^16
// for the quotient relation; the d == 0 branch is decided at full width.
alu_post!(c21_mldv, MLDV, [rid(i.ra), rid(i.rb), rid(i.rc), rid(i.rd)], mldv, |i, q, of| {
    let (b, c, d) = (rb!(i), rc!(i), rd!(i));
    let prod = (b as u128).wrapping_mul(c as u128);
    if d == 0 {
        let k: u32 = kani::any();
        kani::assume(k < 64 && c == 1u64 << k);
        let prod = (b as u128) << k;
        (Spec::Write { value: (prod >> 64) as Word, of: 0, err: 0 }, true)
    } else {
        kani::assume(b < (1 << 16) && c < (1 << 16) && d < (1 << 16));
        // with these bounds the quotient fits in 64 bits: $of must be 0
        let qd = q as u128 * d as u128;
        (Spec::Write { value: q, of: 0, err: 0 }, qd <= prod && prod < qd + d as u128)
    }
});
alu_post!(c21_mldv_overflow, MLDV, [rid(i.ra), rid(i.rb), rid(i.rc), rid(i.rd)], mldv, |i, q, of| {
    // overflow region: d == 1, result = b*c (128 bit): low word to ra, high word to $of,
    // panic iff high word != 0 and not wrapping
    let (b, c, d) = (rb!(i), rc!(i), rd!(i));
    let k: u32 = kani::any();
    kani::assume(d == 1 && k < 64 && c == 1u64 << k);
    let prod = (b as u128) << k;
    if (prod >> 64) != 0 && !flag_wrapping(fl!(i)) {
        (Spec::Panic(PanicReason::ArithmeticOverflow), true)
    } else {
        (Spec::Write { value: prod as Word, of: (prod >> 64) as Word, err: 0 }, true)
    }
});

// NOOP / FLAG: no destination register.
macro_rules! vmh {
    ($name:ident, $body:block) => {
        #[kani::proof]
        #[kani::unwind(70)]
        #[kani::stub(crate::constraints::reg_key::split_registers, split_registers_model)]
        #[kani::stub(core::result::Result::expect, expect_model)]
        #[kani::stub(core::result::Result::unwrap, unwrap_model)]
        pub fn $name() $body
    };
}
/// Gas pre-check shared by the custom harnesses: returns Some(expected registers after the charge)
/// or None if the step must be OutOfGas (and asserts that it was).
pub(crate) fn charge<E>(pre: &[Word; VM_REGISTER_COUNT], post: &[Word; VM_REGISTER_COUNT],
    res: &Result<ExecuteState, RuntimeError<E>>, cost: Word, probe: usize) -> Option<[Word; VM_REGISTER_COUNT]> {
    let mut exp = *pre;
    if cost > pre[R_CGAS] {
        assert!(matches!(res, Err(RuntimeError::Recoverable(PanicReason::OutOfGas))));
        exp[R_CGAS] = 0; exp[R_GGAS] = pre[R_GGAS] - pre[R_CGAS];
        assert!(post[probe] == exp[probe]);
        return None
    }
    exp[R_CGAS] -= cost; exp[R_GGAS] -= cost;
    Some(exp)
}
vmh!(c21_noop, {
    let i = any_in();
    let cost = i.gas.noop;
    let mut vm = mk_vm(i.regs, MemoryInstance::new(), i.gas.clone());
    let res = op::NOOP::new().execute(&mut vm);
    if let Some(mut exp) = charge(&i.regs, &vm.registers, &res, cost, i.probe) {
        assert!(matches!(res, Ok(ExecuteState::Proceed)));
        exp[R_OF] = 0; exp[R_ERR] = 0; exp[R_PC] = i.regs[R_PC] + 4;
        assert!(vm.registers[i.probe] == exp[i.probe]);
        kani::cover!(true, "noop executed");
    } else { kani::cover!(true, "out of gas"); }
    core::mem::forget(vm);
});
vmh!(c21_flag, {
    let mut i = any_in();
    let cost = i.gas.flag;
    i.cost = cost;
    let a = i.src(i.ra);
    let mut vm = mk_vm(i.regs, MemoryInstance::new(), i.gas.clone());
    let res = op::FLAG::new(rid(i.ra)).execute(&mut vm);
    if let Some(mut exp) = charge(&i.regs, &vm.registers, &res, cost, i.probe) {
        if a & !0x03 != 0 {
            assert!(matches!(res, Err(RuntimeError::Recoverable(PanicReason::InvalidFlags))));
            kani::cover!(true, "invalid flags");
        } else {
            assert!(matches!(res, Ok(ExecuteState::Proceed)));
            exp[R_FLAG] = a; exp[R_PC] = i.regs[R_PC] + 4;
            kani::cover!(true, "flags set");
        }
        assert!(vm.registers[i.probe] == exp[i.probe]);
    }
    core::mem::forget(vm);
});

// NIOP: narrow-integer operations; one harness per (operation, width); immediate concrete.
fn niop_mask(w: u8) -> Word { match w { 0 => 0xff, 1 => 0xffff, _ => 0xffff_ffff } }
fn niop_bits(w: u8) -> u32 { match w { 0 => 8, 1 => 16, _ => 32 } }
fn niop_spec(opk: u8, w: u8, b: Word, c: Word, flag: Word) -> Spec {
    let (m, bits) = (niop_mask(w), niop_bits(w));
    let (l, r) = (b & m, c & m);
    let (value, of): (Word, Word) = match opk {
        0 => { let s = l + r; (s & m, s >> bits) }
        1 => (l.wrapping_sub(r) & m, if l < r { Word::MAX } else { 0 }),
        2 => { let p = l * r; (p & m, p >> bits) }
        3 => { // exponent bounded by the harness to < 8
            match pow_ref(l, r) { Some(v) if v <= m => (v, 0), _ => (0, 1) }
        }
        4 => ((if r < 64 { l << r } else { 0 }) & m, 0),
        _ => (!(l ^ r) & m, 0),
    };
    if of != 0 && !flag_wrapping(flag) { Spec::Panic(PanicReason::ArithmeticOverflow) } else { Spec::Write { value, of, err: 0 } }
}
macro_rules! niop {
    ($name:ident, $opk:literal, $w:literal, $can_panic:literal) => {
        alu!($name, NIOP, [rid(i.ra), rid(i.rb), rid(i.rc), Imm06::new($opk | ($w << 4))], niop, $can_panic, |i| {
            // rc is fixed: its low bits share a byte with the immediate in the RRRI06 encoding, and a
            // symbolic rc makes the (constant) operation selector symbolic for CBMC
            i.ra = 0x10; i.rb = 0x11; i.rc = 0x12; // all ids concrete (they share bytes with the immediate)
            if $opk == 3 { let e: u8 = kani::any(); i.regs[0x12] = (i.regs[0x12] & !niop_mask($w)) | (e & 7) as Word; }
            niop_spec($opk, $w, rb!(i), rc!(i), fl!(i))
        });
    };
}
niop!(c21_niop_add_u8, 0, 0, true);  niop!(c21_niop_add_u16, 0, 1, true);  niop!(c21_niop_add_u32, 0, 2, true);
niop!(c21_niop_sub_u8, 1, 0, true);  niop!(c21_niop_sub_u16, 1, 1, true);  niop!(c21_niop_sub_u32, 1, 2, true);
niop!(c21_niop_mul_u8, 2, 0, true);  niop!(c21_niop_mul_u16, 2, 1, true);  niop!(c21_niop_mul_u32, 2, 2, true);
niop!(c21_niop_exp_u8, 3, 0, true);  niop!(c21_niop_exp_u16, 3, 1, true);  niop!(c21_niop_exp_u32, 3, 2, true);
niop!(c21_niop_sll_u8, 4, 0, false); niop!(c21_niop_sll_u16, 4, 1, false); niop!(c21_niop_sll_u32, 4, 2, false);
niop!(c21_niop_xnor_u8, 5, 0, false); niop!(c21_niop_xnor_u16, 5, 1, false); niop!(c21_niop_xnor_u32, 5, 2, false);
// invalid immediates (operation 6..15 or width 3) panic with InvalidImmediateValue
vmh!(c21_niop_invalid_imm, {
    let mut i = any_in();
    i.ra = 0x10; i.rb = 0x11; i.rc = 0x12; // concrete ids (they share bytes with the immediate)
    let cost = i.gas.niop;
    kani::assume((i.imm06 & 0x0f) > 5 || (i.imm06 >> 4) == 3);
    let mut vm = mk_vm(i.regs, MemoryInstance::new(), i.gas.clone());
    let res = op::NIOP::new(rid(i.ra), rid(i.rb), rid(i.rc), Imm06::new(i.imm06)).execute(&mut vm);
    if let Some(exp) = charge(&i.regs, &vm.registers, &res, cost, i.probe) {
        assert!(matches!(res, Err(RuntimeError::Recoverable(PanicReason::InvalidImmediateValue))));
        assert!(vm.registers[i.probe] == exp[i.probe]);
        kani::cover!(true, "invalid immediate");
    }
    core::mem::forget(vm);
});

// NIOP with a symbolic destination id (all 64 ids; slow because the ids share bytes with the immediate)
alu!(c21_niop_reserved_register, NIOP, [rid(i.ra), rid(i.rb), rid(i.rc), Imm06::new(5)], niop, false, |i| {
    niop_spec(5, 0, rb!(i), rc!(i), fl!(i))
});
