// A minimal InterpreterStorage for step harnesses: small association lists (linear search, no
// BTreeMap) for the UploadedBytecodes, BlobData and ContractsAssets tables and for the two version
// tables.  The real MemoryStorage (BTreeMap<Bytes32, UploadedBytecode>, BTreeMap<ContractsAssetKey, Word> ...)
// gives CBMC no verdict in 900 s even for one lookup + one insert; the code under test is generic over
// S: InterpreterStorage.  Tables a harness never touches are `unimplemented!()` (a reachable call would
// be reported as a failed check).  Self-contained: included as a module from both harness anchors.
use crate::storage::{
    BlobBytes, BlobData, ContractsAssetKey, ContractsAssets, ContractsAssetsStorage, ContractsRawCode, ContractsState, InterpreterStorage,
    UploadedBytecode, UploadedBytecodes,
};
use alloc::{borrow::Cow, vec::Vec};
use core::convert::Infallible;
use fuel_storage::{Mappable, StorageInspect, StorageMutate, StorageRead, StorageSize, StorageWrite};
use fuel_tx::ConsensusParameters;
use fuel_types::{BlobId, BlockHeight, Bytes32, ContractId, Word};

pub(crate) struct SlotStorage {
    pub cp_version: u32,
    pub st_version: u32,
    pub cp_table: [Option<u32>; 2],
    pub st_table: [Option<(u32, Bytes32)>; 2],
    pub uploaded: [Option<(Bytes32, UploadedBytecode)>; 2],
    pub blobs: [Option<(BlobId, BlobBytes)>; 2],
    pub assets: [Option<(ContractsAssetKey, Word)>; 4],
    pub code: [Option<(ContractId, Vec<u8>)>; 2],
    pub state: [Option<(crate::storage::ContractsStateKey, Vec<u8>)>; 3],
}
impl SlotStorage {
    pub fn new() -> Self {
        Self { cp_version: 0, st_version: 0, cp_table: [None, None], st_table: [None, None], uploaded: [None, None], blobs: [None, None], assets: [None, None, None, None], code: [None, None], state: [None, None, None] }
    }
    pub fn uploaded_get(&self, k: &Bytes32) -> Option<&UploadedBytecode> {
        for s in self.uploaded.iter() { if let Some((kk, v)) = s { if kk == k { return Some(v) } } }
        None
    }
    pub fn uploaded_count(&self) -> usize { self.uploaded.iter().filter(|s| s.is_some()).count() }
    pub fn blob_get(&self, k: &BlobId) -> Option<&BlobBytes> {
        for s in self.blobs.iter() { if let Some((kk, v)) = s { if kk == k { return Some(v) } } }
        None
    }
    pub fn asset_get(&self, k: &ContractsAssetKey) -> Option<Word> {
        for s in self.assets.iter() { if let Some((kk, v)) = s { if kk == k { return Some(*v) } } }
        None
    }
    pub fn code_get(&self, k: &ContractId) -> Option<&Vec<u8>> {
        for s in self.code.iter() { if let Some((kk, v)) = s { if kk == k { return Some(v) } } }
        None
    }
    pub fn state_get(&self, k: &crate::storage::ContractsStateKey) -> Option<&Vec<u8>> {
        for s in self.state.iter() { if let Some((kk, v)) = s { if kk == k { return Some(v) } } }
        None
    }
    pub fn state_count(&self) -> usize { self.state.iter().filter(|s| s.is_some()).count() }
    pub fn cp_has(&self, v: u32) -> bool { self.cp_table.iter().any(|s| *s == Some(v)) }
    pub fn cp_count(&self) -> usize { self.cp_table.iter().filter(|s| s.is_some()).count() }
    pub fn st_get(&self, v: u32) -> Option<Bytes32> {
        for s in self.st_table.iter() { if let Some((vv, r)) = s { if *vv == v { return Some(*r) } } }
        None
    }
    pub fn st_count(&self) -> usize { self.st_table.iter().filter(|s| s.is_some()).count() }
}

fn put<K: PartialEq + Copy, V, const N: usize>(slots: &mut [Option<(K, V)>; N], k: &K, v: V) -> Option<V> {
    let mut i = 0;
    while i < N {
        if let Some((kk, _)) = &slots[i] {
            if kk == k {
                let old = core::mem::replace(&mut slots[i], Some((*k, v)));
                return old.map(|(_, o)| o)
            }
        }
        i += 1;
    }
    let mut i = 0;
    while i < N {
        if slots[i].is_none() { slots[i] = Some((*k, v)); return None }
        i += 1;
    }
    panic!("SlotStorage capacity exceeded");
}

impl StorageInspect<UploadedBytecodes> for SlotStorage {
    type Error = Infallible;
    fn get(&self, key: &Bytes32) -> Result<Option<Cow<'_, UploadedBytecode>>, Infallible> { Ok(self.uploaded_get(key).map(Cow::Borrowed)) }
    fn contains_key(&self, key: &Bytes32) -> Result<bool, Infallible> { Ok(self.uploaded_get(key).is_some()) }
}
impl StorageMutate<UploadedBytecodes> for SlotStorage {
    fn replace(&mut self, key: &Bytes32, value: &UploadedBytecode) -> Result<Option<UploadedBytecode>, Infallible> { Ok(put(&mut self.uploaded, key, value.clone())) }
    fn take(&mut self, _key: &Bytes32) -> Result<Option<UploadedBytecode>, Infallible> { unimplemented!() }
}
impl StorageInspect<BlobData> for SlotStorage {
    type Error = Infallible;
    fn get(&self, key: &BlobId) -> Result<Option<Cow<'_, BlobBytes>>, Infallible> { Ok(self.blob_get(key).map(Cow::Borrowed)) }
    fn contains_key(&self, key: &BlobId) -> Result<bool, Infallible> { Ok(self.blob_get(key).is_some()) }
}
impl StorageMutate<BlobData> for SlotStorage {
    fn replace(&mut self, key: &BlobId, value: &[u8]) -> Result<Option<BlobBytes>, Infallible> { Ok(put(&mut self.blobs, key, BlobBytes::from(value.to_vec()))) }
    fn take(&mut self, _key: &BlobId) -> Result<Option<BlobBytes>, Infallible> { unimplemented!() }
}
impl StorageSize<BlobData> for SlotStorage {
    fn size_of_value(&self, key: &BlobId) -> Result<Option<usize>, Infallible> { Ok(self.blob_get(key).map(|b| b.0.len())) }
}
impl StorageRead<BlobData> for SlotStorage {
    fn read_exact(&self, _k: &BlobId, _o: usize, _b: &mut [u8]) -> Result<Result<usize, fuel_storage::StorageReadError>, Infallible> { unimplemented!() }
    fn read_zerofill(&self, _k: &BlobId, _o: usize, _b: &mut [u8]) -> Result<Result<usize, fuel_storage::StorageReadError>, Infallible> { unimplemented!() }
    fn read_alloc(&self, _k: &BlobId) -> Result<Option<Vec<u8>>, Infallible> { unimplemented!() }
}
impl StorageWrite<BlobData> for SlotStorage {
    fn write_bytes(&mut self, key: &BlobId, buf: &[u8]) -> Result<(), Infallible> { put(&mut self.blobs, key, BlobBytes::from(buf.to_vec())); Ok(()) }
    fn replace_bytes(&mut self, key: &BlobId, buf: &[u8]) -> Result<Option<Vec<u8>>, Infallible> { Ok(put(&mut self.blobs, key, BlobBytes::from(buf.to_vec())).map(Into::into)) }
    fn take_bytes(&mut self, _key: &BlobId) -> Result<Option<Vec<u8>>, Infallible> { unimplemented!() }
}

macro_rules! untouched_table {
    ($T:ty) => {
        impl StorageInspect<$T> for SlotStorage {
            type Error = Infallible;
            fn get(&self, _k: &<$T as Mappable>::Key) -> Result<Option<Cow<'_, <$T as Mappable>::OwnedValue>>, Infallible> { unimplemented!() }
            fn contains_key(&self, _k: &<$T as Mappable>::Key) -> Result<bool, Infallible> { unimplemented!() }
        }
        impl StorageMutate<$T> for SlotStorage {
            fn replace(&mut self, _k: &<$T as Mappable>::Key, _v: &<$T as Mappable>::Value) -> Result<Option<<$T as Mappable>::OwnedValue>, Infallible> { unimplemented!() }
            fn take(&mut self, _k: &<$T as Mappable>::Key) -> Result<Option<<$T as Mappable>::OwnedValue>, Infallible> { unimplemented!() }
        }
    };
}
macro_rules! untouched_bytes_table {
    ($T:ty) => {
        untouched_table!($T);
        impl StorageSize<$T> for SlotStorage {
            fn size_of_value(&self, _k: &<$T as Mappable>::Key) -> Result<Option<usize>, Infallible> { unimplemented!() }
        }
        impl StorageRead<$T> for SlotStorage {
            fn read_exact(&self, _k: &<$T as Mappable>::Key, _o: usize, _b: &mut [u8]) -> Result<Result<usize, fuel_storage::StorageReadError>, Infallible> { unimplemented!() }
            fn read_zerofill(&self, _k: &<$T as Mappable>::Key, _o: usize, _b: &mut [u8]) -> Result<Result<usize, fuel_storage::StorageReadError>, Infallible> { unimplemented!() }
            fn read_alloc(&self, _k: &<$T as Mappable>::Key) -> Result<Option<Vec<u8>>, Infallible> { unimplemented!() }
        }
        impl StorageWrite<$T> for SlotStorage {
            fn write_bytes(&mut self, _k: &<$T as Mappable>::Key, _b: &[u8]) -> Result<(), Infallible> { unimplemented!() }
            fn replace_bytes(&mut self, _k: &<$T as Mappable>::Key, _b: &[u8]) -> Result<Option<Vec<u8>>, Infallible> { unimplemented!() }
            fn take_bytes(&mut self, _k: &<$T as Mappable>::Key) -> Result<Option<Vec<u8>>, Infallible> { unimplemented!() }
        }
    };
}
macro_rules! bytes_table {
    ($T:ty, $field:ident) => {
        impl StorageInspect<$T> for SlotStorage {
            type Error = Infallible;
            fn get(&self, k: &<$T as Mappable>::Key) -> Result<Option<Cow<'_, <$T as Mappable>::OwnedValue>>, Infallible> {
                for s in self.$field.iter() { if let Some((kk, v)) = s { if kk == k { return Ok(Some(Cow::Owned(<$T as Mappable>::OwnedValue::from(v.clone())))) } } }
                Ok(None)
            }
            fn contains_key(&self, k: &<$T as Mappable>::Key) -> Result<bool, Infallible> {
                for s in self.$field.iter() { if let Some((kk, _)) = s { if kk == k { return Ok(true) } } }
                Ok(false)
            }
        }
        impl StorageMutate<$T> for SlotStorage {
            fn replace(&mut self, k: &<$T as Mappable>::Key, v: &<$T as Mappable>::Value) -> Result<Option<<$T as Mappable>::OwnedValue>, Infallible> {
                Ok(put(&mut self.$field, k, v.to_vec()).map(<$T as Mappable>::OwnedValue::from))
            }
            fn take(&mut self, _k: &<$T as Mappable>::Key) -> Result<Option<<$T as Mappable>::OwnedValue>, Infallible> { unimplemented!() }
        }
        impl StorageSize<$T> for SlotStorage {
            fn size_of_value(&self, k: &<$T as Mappable>::Key) -> Result<Option<usize>, Infallible> {
                for s in self.$field.iter() { if let Some((kk, v)) = s { if kk == k { return Ok(Some(v.len())) } } }
                Ok(None)
            }
        }
        impl StorageRead<$T> for SlotStorage {
            fn read_exact(&self, _k: &<$T as Mappable>::Key, _o: usize, _b: &mut [u8]) -> Result<Result<usize, fuel_storage::StorageReadError>, Infallible> { unimplemented!() }
            fn read_zerofill(&self, _k: &<$T as Mappable>::Key, _o: usize, _b: &mut [u8]) -> Result<Result<usize, fuel_storage::StorageReadError>, Infallible> { unimplemented!() }
            fn read_alloc(&self, _k: &<$T as Mappable>::Key) -> Result<Option<Vec<u8>>, Infallible> { unimplemented!() }
        }
        impl StorageWrite<$T> for SlotStorage {
            fn write_bytes(&mut self, k: &<$T as Mappable>::Key, b: &[u8]) -> Result<(), Infallible> { put(&mut self.$field, k, b.to_vec()); Ok(()) }
            fn replace_bytes(&mut self, _k: &<$T as Mappable>::Key, _b: &[u8]) -> Result<Option<Vec<u8>>, Infallible> { unimplemented!() }
            fn take_bytes(&mut self, _k: &<$T as Mappable>::Key) -> Result<Option<Vec<u8>>, Infallible> { unimplemented!() }
        }
    };
}
bytes_table!(ContractsRawCode, code);
bytes_table!(ContractsState, state);
impl StorageInspect<ContractsAssets> for SlotStorage {
    type Error = Infallible;
    fn get(&self, key: &ContractsAssetKey) -> Result<Option<Cow<'_, Word>>, Infallible> { Ok(self.asset_get(key).map(Cow::Owned)) }
    fn contains_key(&self, key: &ContractsAssetKey) -> Result<bool, Infallible> { Ok(self.asset_get(key).is_some()) }
}
impl StorageMutate<ContractsAssets> for SlotStorage {
    fn replace(&mut self, key: &ContractsAssetKey, value: &Word) -> Result<Option<Word>, Infallible> { Ok(put(&mut self.assets, key, *value)) }
    fn take(&mut self, _key: &ContractsAssetKey) -> Result<Option<Word>, Infallible> { unimplemented!() }
}
impl ContractsAssetsStorage for SlotStorage {}

impl InterpreterStorage for SlotStorage {
    type DataError = Infallible;
    fn block_height(&self) -> Result<BlockHeight, Infallible> { unimplemented!() }
    fn consensus_parameters_version(&self) -> Result<u32, Infallible> { Ok(self.cp_version) }
    fn state_transition_version(&self) -> Result<u32, Infallible> { Ok(self.st_version) }
    fn timestamp(&self, _h: BlockHeight) -> Result<Word, Infallible> { unimplemented!() }
    fn block_hash(&self, _h: BlockHeight) -> Result<Bytes32, Infallible> { unimplemented!() }
    fn coinbase(&self) -> Result<ContractId, Infallible> { unimplemented!() }
    fn set_consensus_parameters(&mut self, version: u32, p: &ConsensusParameters) -> Result<Option<ConsensusParameters>, Infallible> {
        if self.cp_has(version) { return Ok(Some(p.clone())) }
        let mut i = 0;
        while i < 2 { if self.cp_table[i].is_none() { self.cp_table[i] = Some(version); return Ok(None) } i += 1; }
        panic!("SlotStorage capacity exceeded");
    }
    fn set_state_transition_bytecode(&mut self, version: u32, root: &Bytes32) -> Result<Option<Bytes32>, Infallible> {
        Ok(put(&mut self.st_table, &version, *root))
    }
    fn contract_state_remove_range(&mut self, _c: &ContractId, _k: &Bytes32, _r: usize) -> Result<(), Infallible> { unimplemented!() }
}
