// C29 — no input makes the VM crash, report an internal bug or run forever (step obligations that
// are specific to this property; the "no host panic / no Bug in one step" clause is discharged by
// Kani's default checks and the exact-outcome assertions of every handler harness, a sample of
// which is re-run under this property).
use super::*;
use super::c21_alu::any_in;

macro_rules! ph {
    ($name:ident, $body:block) => {
        #[kani::proof]
        #[kani::unwind(100)]
        #[kani::stub(crate::constraints::reg_key::split_registers, split_registers_model)]
        #[kani::stub(core::result::Result::expect, expect_model)]
        #[kani::stub(core::result::Result::unwrap, unwrap_model)]
        pub fn $name() $body
    };
}

// Under the DEFAULT gas schedule every fixed-cost instruction costs at least 1 and every
// dependent-cost instruction has a base of at least 1: with "each step charges exactly its
// schedule entry" (C21/C22/C24/C25 harnesses) every successful step strictly decreases $ggas, so a
// run is bounded by the initial $ggas.
ph!(c29_default_schedule_is_positive, {
    let g = GasCosts::default();
    let fixed = [g.add(), g.addi(), g.and(), g.andi(), g.bal(), g.bhei(), g.bhsh(), g.burn(), g.cb(), g.cfsi(), g.div(), g.divi(),
        g.eck1(), g.ecr1(), g.eq_(), g.exp(), g.expi(), g.flag(), g.gm(), g.gt(), g.gtf(), g.ji(), g.jmp(), g.jne(), g.jnei(), g.jnzi(),
        g.jmpf(), g.jmpb(), g.jnzf(), g.jnzb(), g.jnef(), g.jneb(), g.lb(), g.log(), g.lt(), g.lw(), g.mint(), g.mlog(), g.mod_op(),
        g.modi(), g.move_op(), g.movi(), g.mroo(), g.mul(), g.muli(), g.mldv(), g.noop(), g.not(), g.or(), g.ori(), g.poph(), g.popl(),
        g.pshh(), g.pshl(), g.ret(), g.rvrt(), g.sb(), g.sll(), g.slli(), g.srl(), g.srli(), g.sub(), g.subi(), g.sw(), g.time(),
        g.tr(), g.tro(), g.wdcm(), g.wqcm(), g.wdop(), g.wqop(), g.wdml(), g.wqml(), g.wddv(), g.wqdv(), g.wdmd(), g.wqmd(), g.wdam(),
        g.wqam(), g.wdmm(), g.wqmm(), g.xor(), g.xori()];
    let mut k = 0;
    while k < fixed.len() { assert!(fixed[k] >= 1); k += 1; }
    let dep = [g.aloc(), g.cfe(), g.cfei(), g.call(), g.ccp(), g.croo(), g.csiz(), g.ed19(), g.k256(), g.ldc(), g.logd(), g.mcl(),
        g.mcli(), g.mcp(), g.mcpi(), g.meq(), g.retd(), g.s256(), g.smo()];
    let mut k = 0;
    let units: Word = kani::any();
    while k < dep.len() { assert!(dep[k].base() >= 1 && dep[k].resolve(units) >= 1); k += 1; }
    kani::cover!(true, "default schedule inspected");
});

// Error classification is total: every runtime error of a step becomes either a panic bound to the
// instruction (recoverable: execution ends with a panic receipt) or is passed through unchanged.
ph!(c29_from_runtime_total, {
    let raw: u32 = kani::any();
    let sel: u8 = kani::any();
    let reason = match sel % 6 { 0 => PanicReason::OutOfGas, 1 => PanicReason::MemoryOverflow, 2 => PanicReason::ArithmeticOverflow,
        3 => PanicReason::InvalidInstruction, 4 => PanicReason::MemoryOwnership, _ => PanicReason::ReservedRegisterNotWritable };
    let e: RuntimeError<core::convert::Infallible> = RuntimeError::Recoverable(reason);
    let ie = crate::error::InterpreterError::from_runtime(e, raw);
    match ie.instruction_result() {
        Some(p) => { assert!(*p.reason() == reason && *p.instruction() == raw); kani::cover!(true, "panic bound to the instruction"); }
        None => assert!(false),
    }
    assert!(ie.panic_reason() == Some(reason));
});

// (The dispatcher `instruction_inner` cannot be compiled by Kani 0.68: it reaches secp256k1 ->
// rand::thread_rng -> catch_unwind, K3.  Undefined opcode bytes are covered at decoder level by C08.)
