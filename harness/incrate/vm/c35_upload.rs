// C35 — bytecode upload, blob, deployment and upgrade state evolve as specified.
// One-step harnesses over the real private step functions of executors/main.rs with the real
// MemoryStorage (BTreeMap tables): pre-state symbolic within the stated shapes.
use super::*;
use fuel_storage::{StorageAsRef, StorageInspect, StorageSize, StorageRead};
use fuel_tx::{field::Outputs, Output, Transaction, Cacheable};

use super::slotst::SlotStorage;
use crate::storage::BlobBytes;
type Vm = Interpreter<MemoryInstance, SlotStorage, Script, NotSupportedEcal, Normal>;
type IErr = InterpreterError<core::convert::Infallible>;

#[derive(Clone, Copy, kani::Arbitrary)]
struct B<const N: usize>([u8; N]);

fn vec_of<const N: usize>(b: &B<N>) -> Vec<u8> {
    let mut v = Vec::with_capacity(N);
    let mut i = 0;
    while i < N { v.push(b.0[i]); i += 1; }
    v
}

fn is_concat<const P: usize, const W: usize>(out: &[u8], prior: &B<P>, wit: &B<W>) -> bool {
    if out.len() != P + W { return false }
    let mut ok = true;
    let mut i = 0;
    while i < P { ok &= out[i] == prior.0[i]; i += 1; }
    let mut j = 0;
    while j < W { ok &= out[P + j] == wit.0[j]; j += 1; }
    ok
}

fn mk_upload<const W: usize>(root: Bytes32, idx: u16, total: u16, wit: &B<W>) -> Upload {
    Transaction::upload(
        UploadBody { root, witness_index: 0, subsection_index: idx, subsections_number: total, proof_set: Vec::new() },
        Policies::new(), Vec::new(), Vec::new(), alloc::vec![Witness::from(vec_of(wit))],
    )
}

/// upload_bytecode_subsection: accepted iff the subsection index is the next expected one; the
/// result is prior ‖ witness; Completed exactly when the last subsection arrives.
fn subsection_case<const P: usize, const W: usize>() {
    let idx: u16 = kani::any();
    let total: u16 = kani::any();
    let k: u16 = kani::any();
    // Checked<Upload> guarantee (validity rule of the Upload kind): subsection_index < subsections_number
    kani::assume(idx < total);
    let prior: B<P> = kani::any();
    let wit: B<W> = kani::any();
    let upload = mk_upload(Bytes32::zeroed(), idx, total, &wit);
    let r: Result<UploadedBytecode, IErr> = Vm::upload_bytecode_subsection(&upload, vec_of(&prior), k);
    if idx != k {
        assert!(matches!(r, Err(InterpreterError::Panic(PanicReason::ThePartIsNotSequentiallyConnected))));
        kani::cover!(true, "out-of-order subsection refused");
    } else {
        match &r {
            Ok(UploadedBytecode::Completed(b)) => {
                assert!(k as u32 + 1 == total as u32);
                assert!(is_concat(b, &prior, &wit));
                kani::cover!(true, "last subsection completes the bytecode");
            }
            Ok(UploadedBytecode::Uncompleted { bytecode, uploaded_subsections_number }) => {
                assert!((k as u32 + 1) < total as u32);
                assert!(*uploaded_subsections_number as u32 == k as u32 + 1);
                assert!(is_concat(bytecode, &prior, &wit));
                kani::cover!(true, "intermediate subsection appended");
            }
            Err(_) => assert!(false, "in-order subsection must be accepted"),
        }
    }
    core::mem::forget(r);
    core::mem::forget(upload);
}

macro_rules! subsection_harness {
    ($name:ident, $p:literal, $w:literal) => {
        #[kani::proof]
        #[kani::unwind(8)]
        #[kani::stub(core::result::Result::expect, expect_model)]
        #[kani::stub(core::result::Result::unwrap, unwrap_model)]
        #[kani::stub(crate::error::Bug::new, crate::error::Bug::verif_new)]
        pub fn $name() { subsection_case::<$p, $w>() }
    };
}
subsection_harness!(c35_subsection_p0_w3, 0, 3);
subsection_harness!(c35_subsection_p2_w3, 2, 3);
subsection_harness!(c35_subsection_p3_w0, 3, 0);
subsection_harness!(c35_subsection_p4_w1, 4, 1);

// ---------------------------------------------------------------------------------------
// upload_inner against MemoryStorage
// ---------------------------------------------------------------------------------------
#[derive(Clone, Copy, PartialEq, Eq)]
enum Pre { Absent, Uncompleted, Completed }

fn other_root() -> Bytes32 { Bytes32::new([0xEE; 32]) }

/// `pre`: what the table holds under the transaction's root.  A second, concrete root always holds
/// an unrelated uncompleted upload that must never be touched (interleaved uploads of several roots).
fn upload_inner_case<const P: usize, const W: usize>(pre: Pre) {
    // table keys are harness constants: a symbolic 32-byte BTreeMap key gives no verdict in 900 s
    let root = Bytes32::new([0x55; 32]);
    let idx: u16 = kani::any();
    let total: u16 = kani::any();
    let k: u16 = kani::any();
    kani::assume(idx < total);
    let prior: B<P> = kani::any();
    let wit: B<W> = kani::any();
    let other_bytes: B<2> = kani::any();
    let other_n: u16 = kani::any();
    let mut st = SlotStorage::new();
    let other_val = UploadedBytecode::Uncompleted { bytecode: vec_of(&other_bytes), uploaded_subsections_number: other_n };
    st.uploaded[0] = Some((other_root(), other_val.clone()));
    match pre {
        Pre::Absent => {}
        Pre::Uncompleted => {
            st.uploaded[1] = Some((root, UploadedBytecode::Uncompleted { bytecode: vec_of(&prior), uploaded_subsections_number: k }));
        }
        Pre::Completed => {
            st.uploaded[1] = Some((root, UploadedBytecode::Completed(vec_of(&prior))));
        }
    }
    let before = st.uploaded_get(&root).cloned();
    let mut upload = mk_upload(root, idx, total, &wit);
    let gas_costs = GasCosts::default();
    let r: Result<(), IErr> = Vm::upload_inner(&mut upload, &mut st, InitialBalances::default(), &gas_costs,
                                                &FeeParameters::DEFAULT, &AssetId::zeroed(), 0);
    let after = st.uploaded_get(&root).cloned();
    // the unrelated root is never touched
    assert!(st.uploaded_get(&other_root()) == Some(&other_val));
    assert!(st.uploaded_count() == if after.is_some() { 2 } else { 1 });
    // expected number of already uploaded parts / accumulated bytes
    let (exp_k, have): (u16, usize) = match pre { Pre::Absent => (0, 0), _ => (k, P) };
    if pre == Pre::Completed {
        assert!(matches!(r, Err(InterpreterError::Panic(PanicReason::BytecodeAlreadyUploaded))));
        assert!(after == before);
        kani::cover!(true, "completed bytecode cannot be extended");
    } else if idx != exp_k {
        assert!(matches!(r, Err(InterpreterError::Panic(PanicReason::ThePartIsNotSequentiallyConnected))));
        assert!(after == before);
        kani::cover!(true, "failed upload leaves the table unchanged");
    } else {
        assert!(r.is_ok());
        let ok_bytes = |b: &Vec<u8>| -> bool {
            if pre == Pre::Absent {
                let empty: B<0> = B([]);
                is_concat(b, &empty, &wit)
            } else {
                is_concat(b, &prior, &wit)
            }
        };
        match &after {
            Some(UploadedBytecode::Completed(b)) => {
                assert!(exp_k as u32 + 1 == total as u32);
                assert!(ok_bytes(b));
                kani::cover!(true, "stored as completed");
            }
            Some(UploadedBytecode::Uncompleted { bytecode, uploaded_subsections_number }) => {
                assert!((exp_k as u32 + 1) < total as u32);
                assert!(*uploaded_subsections_number as u32 == exp_k as u32 + 1);
                assert!(ok_bytes(bytecode));
                kani::cover!(true, "stored as uncompleted");
            }
            None => assert!(false, "accepted subsection must be stored"),
        }
    }
    core::mem::forget(st);
    core::mem::forget(upload);
    core::mem::forget(before);
    core::mem::forget(after);
}

macro_rules! upload_inner_harness {
    ($name:ident, $p:literal, $w:literal, $pre:expr) => {
        #[kani::proof]
        #[kani::unwind(8)]
        #[kani::stub(core::result::Result::expect, expect_model)]
        #[kani::stub(core::result::Result::unwrap, unwrap_model)]
        #[kani::stub(crate::error::Bug::new, crate::error::Bug::verif_new)]
        pub fn $name() { upload_inner_case::<$p, $w>($pre) }
    };
}
upload_inner_harness!(c35_upload_inner_absent_w2, 0, 2, Pre::Absent);
upload_inner_harness!(c35_upload_inner_uncompleted_p2_w2, 2, 2, Pre::Uncompleted);
upload_inner_harness!(c35_upload_inner_completed_p2_w1, 2, 1, Pre::Completed);

// ---------------------------------------------------------------------------------------
// blob_inner: a blob id can be created only once, with exactly the witness data
// ---------------------------------------------------------------------------------------
pub(crate) fn toy_hash<Bb: AsRef<[u8]>>(data: Bb) -> Bytes32 {
    let d = data.as_ref();
    let n = d.len();
    let mut w = [0u8; 32];
    // depends on the length only, so that table keys derived from it stay concrete
    w[0] = n as u8;
    w[31] = 0xB1;
    Bytes32::new(w)
}

fn blob_case<const W: usize>(present: bool) {
    let data: B<W> = kani::any();
    let id = BlobId::new(*toy_hash(&data.0[..]));
    let other_id = BlobId::new([0xEE; 32]);
    let mut st = SlotStorage::new();
    let other: B<1> = kani::any();
    st.blobs[0] = Some((other_id, BlobBytes::from(vec_of(&other))));
    if present {
        st.blobs[1] = Some((id, BlobBytes::from(vec_of(&data))));
    }
    let mut blob = Transaction::blob(BlobBody { id, witness_index: 0 }, Policies::new(), Vec::new(), Vec::new(),
                                     alloc::vec![Witness::from(vec_of(&data))]);
    let gas_costs = GasCosts::default();
    let r: Result<(), IErr> = Vm::blob_inner(&mut blob, &mut st, InitialBalances::default(), &gas_costs,
                                             &FeeParameters::DEFAULT, &AssetId::zeroed(), 0);
    if present {
        assert!(matches!(r, Err(InterpreterError::Panic(PanicReason::BlobIdAlreadyUploaded))));
        kani::cover!(true, "second creation of a blob id refused");
    } else {
        assert!(r.is_ok());
        kani::cover!(true, "blob created");
    }
    // in both cases the table now holds exactly the witness data under the id, and the other blob is untouched
    let got = st.blob_get(&id);
    match got {
        Some(b) => { let empty: B<0> = B([]); assert!(is_concat(b.0.as_ref(), &empty, &data)); }
        None => assert!(false, "blob must be stored"),
    }
    let o = st.blob_get(&other_id);
    match o {
        Some(b) => { let empty: B<0> = B([]); assert!(is_concat(b.0.as_ref(), &empty, &other)); }
        None => assert!(false, "unrelated blob must stay"),
    }
    core::mem::forget(st);
    core::mem::forget(blob);
}

macro_rules! blob_harness {
    ($name:ident, $w:literal, $present:literal) => {
        #[kani::proof]
        #[kani::unwind(8)]
        #[kani::stub(core::result::Result::expect, expect_model)]
        #[kani::stub(core::result::Result::unwrap, unwrap_model)]
        #[kani::stub(crate::error::Bug::new, crate::error::Bug::verif_new)]
        #[kani::stub(fuel_crypto::Hasher::hash, toy_hash)]
        pub fn $name() { blob_case::<$w>($present) }
    };
}
blob_harness!(c35_blob_new_w0, 0, false);
blob_harness!(c35_blob_new_w3, 3, false);
blob_harness!(c35_blob_again_w0, 0, true);
blob_harness!(c35_blob_again_w2, 2, true);

// ---------------------------------------------------------------------------------------
// upgrade_inner: installs under current version + 1, fails if taken / if the bytecode is not
// completely uploaded
// ---------------------------------------------------------------------------------------
fn upgrade_state_transition_case() {
    let cur: u32 = kani::any();
    let root = Bytes32::new([0x55; 32]);
    let mut st = SlotStorage::new();
    st.st_version = cur;
    // bytecode table: absent / uncompleted / completed under `root`
    let which: u8 = kani::any();
    kani::assume(which < 3);
    let b: B<1> = kani::any();
    if which == 1 {
        st.uploaded[0] = Some((root, UploadedBytecode::Uncompleted { bytecode: vec_of(&b), uploaded_subsections_number: kani::any() }));
    } else if which == 2 {
        st.uploaded[0] = Some((root, UploadedBytecode::Completed(vec_of(&b))));
    }
    let next = if cur == u32::MAX { u32::MAX } else { cur + 1 };
    let taken: bool = kani::any();
    let old = Bytes32::new([0x77; 32]);
    if taken {
        st.st_table[0] = Some((next, old));
    }
    let mut tx = Transaction::upgrade(UP::StateTransition { root }, Policies::new(), Vec::new(), Vec::new(), Vec::new());
    tx.precompute(&fuel_types::ChainId::new(0)).unwrap();
    let gas_costs = GasCosts::default();
    let r: Result<(), IErr> = Vm::upgrade_inner(&mut tx, &mut st, InitialBalances::default(), &gas_costs,
                                                &FeeParameters::DEFAULT, &AssetId::zeroed(), 0);
    if which != 2 {
        assert!(matches!(r, Err(InterpreterError::Panic(PanicReason::UnknownStateTransactionBytecodeRoot))));
        // nothing installed
        assert!(st.st_count() == taken as usize);
        if taken { assert!(st.st_get(next) == Some(old)); }
        kani::cover!(which == 1, "uncompleted bytecode refused");
        kani::cover!(which == 0, "unknown root refused");
    } else if taken {
        assert!(matches!(r, Err(InterpreterError::Panic(PanicReason::OverridingStateTransactionBytecode))));
        kani::cover!(true, "taken version refused");
    } else {
        assert!(r.is_ok());
        assert!(st.st_count() == 1);
        assert!(st.st_get(next) == Some(root));
        kani::cover!(cur == u32::MAX, "installed at the saturated version");
        kani::cover!(cur < u32::MAX, "installed under current + 1");
    }
    core::mem::forget(st);
    core::mem::forget(tx);
}

#[kani::proof]
#[kani::unwind(70)]
#[kani::stub(core::result::Result::expect, expect_model)]
#[kani::stub(core::result::Result::unwrap, unwrap_model)]
#[kani::stub(crate::error::Bug::new, crate::error::Bug::verif_new)]
#[kani::stub(fuel_crypto::Hasher::hash, toy_hash)]
#[kani::stub(fuel_crypto::Hasher::input, hasher_input_noop)]
#[kani::stub(fuel_crypto::Hasher::finalize, hasher_finalize_const)]
pub fn c35_upgrade_state_transition() { upgrade_state_transition_case() }

pub(crate) fn hasher_input_noop<Bb: AsRef<[u8]>>(_h: &mut fuel_crypto::Hasher, _data: Bb) {}
pub(crate) fn hasher_finalize_const(_h: fuel_crypto::Hasher) -> Bytes32 { Bytes32::new([0x1D; 32]) }

/// UpgradeMetadata::compute (hashing + postcard decoding of the witness: C06's subject) replaced by
/// a model returning default consensus parameters; C35 is about the version bookkeeping.
pub(crate) fn upgrade_metadata_model(tx: &Upgrade) -> Result<UpgradeMetadata, ValidityError> {
    match tx.upgrade_purpose() {
        UP::ConsensusParameters { .. } => Ok(UpgradeMetadata::ConsensusParameters {
            consensus_parameters: alloc::boxed::Box::new(ConsensusParameters::default()),
            calculated_checksum: Bytes32::zeroed(),
        }),
        UP::StateTransition { .. } => Ok(UpgradeMetadata::StateTransition),
    }
}

fn upgrade_consensus_case() {
    let cur: u32 = kani::any();
    let mut st = SlotStorage::new();
    st.cp_version = cur;
    let next = if cur == u32::MAX { u32::MAX } else { cur + 1 };
    let taken: bool = kani::any();
    if taken {
        st.cp_table[0] = Some(next);
    }
    let mut tx = Transaction::upgrade(UP::ConsensusParameters { witness_index: 0, checksum: Bytes32::zeroed() },
                                      Policies::new(), Vec::new(), Vec::new(), alloc::vec![Witness::from(alloc::vec![1u8, 2])]);
    tx.precompute(&fuel_types::ChainId::new(0)).unwrap();
    let gas_costs = GasCosts::default();
    let r: Result<(), IErr> = Vm::upgrade_inner(&mut tx, &mut st, InitialBalances::default(), &gas_costs,
                                                &FeeParameters::DEFAULT, &AssetId::zeroed(), 0);
    if taken {
        assert!(matches!(r, Err(InterpreterError::Panic(PanicReason::OverridingConsensusParameters))));
        kani::cover!(true, "taken version refused");
    } else {
        assert!(r.is_ok());
        kani::cover!(cur == u32::MAX, "installed at the saturated version");
        kani::cover!(cur < u32::MAX, "installed under current + 1");
    }
    // exactly one entry, under current + 1 (saturating)
    assert!(st.cp_count() == 1);
    assert!(st.cp_has(next));
    core::mem::forget(st);
    core::mem::forget(tx);
}

#[kani::proof]
#[kani::unwind(70)]
#[kani::stub(core::result::Result::expect, expect_model)]
#[kani::stub(core::result::Result::unwrap, unwrap_model)]
#[kani::stub(crate::error::Bug::new, crate::error::Bug::verif_new)]
#[kani::stub(fuel_crypto::Hasher::hash, toy_hash)]
#[kani::stub(fuel_crypto::Hasher::input, hasher_input_noop)]
#[kani::stub(fuel_crypto::Hasher::finalize, hasher_finalize_const)]
#[kani::stub(fuel_tx::UpgradeMetadata::compute, upgrade_metadata_model)]
pub fn c35_upgrade_consensus_parameters() { upgrade_consensus_case() }

// ---------------------------------------------------------------------------------------
// deploy_inner: a contract id can be created only once, with exactly the code and storage slots
// ---------------------------------------------------------------------------------------
const CID: ContractId = ContractId::new([0xC1; 32]);
/// CreateMetadata::compute (code root / state root / contract id formulas: C15's subject) replaced by a
/// model with a fixed contract id; C35 is about what is stored under `metadata.contract_id`.
pub(crate) fn create_metadata_model(_tx: &Create) -> Result<fuel_tx::CreateMetadata, ValidityError> {
    Ok(fuel_tx::CreateMetadata { contract_id: CID, contract_root: Bytes32::zeroed(), state_root: Bytes32::zeroed() })
}

fn deploy_case<const W: usize>(exists: bool, with_slot: bool) {
    use crate::storage::ContractsStateKey;
    let code: B<W> = kani::any();
    let (sk, sv): ([u8; 32], [u8; 32]) = ([0x51; 32], kani::any());
    let slots = if with_slot { alloc::vec![fuel_tx::StorageSlot::new(Bytes32::new(sk), Bytes32::new(sv))] } else { Vec::new() };
    let mut tx = Transaction::create(0, Policies::new(), fuel_types::Salt::zeroed(), slots, Vec::new(), Vec::new(),
                                     alloc::vec![Witness::from(vec_of(&code))]);
    tx.precompute(&fuel_types::ChainId::new(0)).unwrap();
    let mut st = SlotStorage::new();
    let other = ContractId::new([0xEE; 32]);
    let other_code: B<1> = kani::any();
    st.code[0] = Some((other, vec_of(&other_code)));
    let old_code: B<2> = kani::any();
    if exists { st.code[1] = Some((CID, vec_of(&old_code))); }
    let gas_costs = GasCosts::default();
    let r: Result<(), IErr> = Vm::deploy_inner(&mut tx, &mut st, InitialBalances::default(), &gas_costs,
                                               &FeeParameters::DEFAULT, &AssetId::zeroed(), 0);
    let empty: B<0> = B([]);
    // the unrelated contract is never touched
    match st.code_get(&other) { Some(c) => assert!(is_concat(c, &empty, &other_code)), None => assert!(false) }
    if exists {
        assert!(matches!(r, Err(InterpreterError::Panic(PanicReason::ContractIdAlreadyDeployed))));
        match st.code_get(&CID) { Some(c) => assert!(is_concat(c, &empty, &old_code)), None => assert!(false) }
        assert!(st.state_count() == 0, "a refused deployment writes no storage slot");
        kani::cover!(true, "second deployment of a contract id refused, code unchanged");
    } else {
        assert!(r.is_ok());
        match st.code_get(&CID) { Some(c) => assert!(is_concat(c, &empty, &code)), None => assert!(false, "code must be stored under the metadata contract id") }
        if with_slot {
            assert!(st.state_count() == 1);
            match st.state_get(&ContractsStateKey::new(&CID, &Bytes32::new(sk))) {
                Some(v) => { let mut ok = v.len() == 32; let mut i = 0; while i < 32 { ok &= v[i] == sv[i]; i += 1; } assert!(ok); }
                None => assert!(false, "storage slot must be stored under the contract id"),
            }
        } else {
            assert!(st.state_count() == 0);
        }
        kani::cover!(true, "contract deployed with its code and slots");
    }
    core::mem::forget(st);
    core::mem::forget(tx);
}

macro_rules! deploy_harness {
    ($name:ident, $w:literal, $exists:literal, $slot:literal) => {
        #[kani::proof]
        #[kani::unwind(70)]
        #[kani::stub(core::result::Result::expect, expect_model)]
        #[kani::stub(core::result::Result::unwrap, unwrap_model)]
        #[kani::stub(crate::error::Bug::new, crate::error::Bug::verif_new)]
        #[kani::stub(fuel_crypto::Hasher::hash, toy_hash)]
        #[kani::stub(fuel_crypto::Hasher::input, hasher_input_noop)]
        #[kani::stub(fuel_crypto::Hasher::finalize, hasher_finalize_const)]
        #[kani::stub(fuel_tx::CreateMetadata::compute, create_metadata_model)]
        pub fn $name() { deploy_case::<$w>($exists, $slot) }
    };
}
deploy_harness!(c35_deploy_new_w3_slot, 3, false, true);
deploy_harness!(c35_deploy_new_w0, 0, false, false);
deploy_harness!(c35_deploy_again_w2_slot, 2, true, true);
