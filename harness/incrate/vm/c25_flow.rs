// C25 — control flow lands exactly where the specification says; C26 — gas kernel.
use super::*;
use super::c21_alu::{any_in, charge, In};

fn rid(i: usize) -> RegId { RegId::new(i as u8) }

/// Specification of a jump: taken?, and the target in wide arithmetic (None = below zero).
pub(crate) struct J { pub taken: bool, pub target: Option<u128> }
fn abs_is(i: &In, x: u128) -> Option<u128> { Some(i.regs[R_IS] as u128 + 4 * x) }
fn fwd(i: &In, x: u128) -> Option<u128> { Some(i.regs[R_PC] as u128 + 4 * (x + 1)) }
fn bwd(i: &In, x: u128) -> Option<u128> {
    let off = 4 * (x + 1);
    if off > i.regs[R_PC] as u128 { None } else { Some(i.regs[R_PC] as u128 - off) }
}

macro_rules! jump {
    ($name:ident, $Op:ident, [$($arg:expr),*], $gas:ident, |$i:ident| $spec:expr) => {
        jump!($name, $Op, [$($arg),*], $gas, true, |$i| $spec);
    };
    ($name:ident, $Op:ident, [$($arg:expr),*], $gas:ident, $conditional:literal, |$i:ident| $spec:expr) => {
        #[kani::proof]
        #[kani::unwind(70)]
        #[kani::stub(crate::constraints::reg_key::split_registers, split_registers_model)]
        #[kani::stub(core::result::Result::expect, expect_model)]
        #[kani::stub(core::result::Result::unwrap, unwrap_model)]
        pub fn $name() {
            let mut $i = any_in();
            let cost = $i.gas.$gas;
            $i.cost = cost;
            let j: J = $spec;
            let mut vm = mk_vm($i.regs, MemoryInstance::new(), $i.gas.clone());
            let res = op::$Op::new($($arg),*).execute(&mut vm);
            if let Some(mut exp) = charge(&$i.regs, &vm.registers, &res, cost, $i.probe) {
                if !j.taken {
                    assert!(matches!(res, Ok(ExecuteState::Proceed)));
                    exp[R_PC] = $i.regs[R_PC] + 4;
                    if $conditional { kani::cover!(true, "untaken: pc + 4"); } else { assert!(false, "unconditional jump not taken"); }
                } else {
                    match j.target {
                        Some(t) if t < VM_MAX_RAM as u128 => {
                            assert!(matches!(res, Ok(ExecuteState::Proceed)));
                            exp[R_PC] = t as Word;
                            kani::cover!(true, "taken: pc = target");
                        }
                        _ => {
                            assert!(matches!(res, Err(RuntimeError::Recoverable(PanicReason::MemoryOverflow))));
                            kani::cover!(true, "target outside memory");
                        }
                    }
                }
                assert!(vm.registers[$i.probe] == exp[$i.probe]);
            } else { kani::cover!(true, "out of gas"); }
            core::mem::forget(vm);
        }
    };
}
macro_rules! r { ($i:ident, $f:ident) => { $i.src($i.$f) } }

jump!(c25_ji, JI, [Imm24::new(i.imm18 | ((i.imm06 as u32) << 18))], ji, false, |i| J { taken: true, target: abs_is(&i, (i.imm18 | ((i.imm06 as u32) << 18)) as u128) });
jump!(c25_jmp, JMP, [rid(i.ra)], jmp, false, |i| J { taken: true, target: abs_is(&i, r!(i, ra) as u128) });
jump!(c25_jne, JNE, [rid(i.ra), rid(i.rb), rid(i.rc)], jne, |i| J { taken: r!(i, ra) != r!(i, rb), target: abs_is(&i, r!(i, rc) as u128) });
jump!(c25_jnei, JNEI, [rid(i.ra), rid(i.rb), Imm12::new(i.imm12)], jnei, |i| J { taken: r!(i, ra) != r!(i, rb), target: abs_is(&i, i.imm12 as u128) });
jump!(c25_jnzi, JNZI, [rid(i.ra), Imm18::new(i.imm18)], jnzi, |i| J { taken: r!(i, ra) != 0, target: abs_is(&i, i.imm18 as u128) });
jump!(c25_jmpf, JMPF, [rid(i.ra), Imm18::new(i.imm18)], jmpf, false, |i| J { taken: true, target: fwd(&i, r!(i, ra) as u128 + i.imm18 as u128) });
jump!(c25_jmpb, JMPB, [rid(i.ra), Imm18::new(i.imm18)], jmpb, false, |i| J { taken: true, target: bwd(&i, r!(i, ra) as u128 + i.imm18 as u128) });
jump!(c25_jnzf, JNZF, [rid(i.ra), rid(i.rb), Imm12::new(i.imm12)], jnzf, |i| J { taken: r!(i, ra) != 0, target: fwd(&i, r!(i, rb) as u128 + i.imm12 as u128) });
jump!(c25_jnzb, JNZB, [rid(i.ra), rid(i.rb), Imm12::new(i.imm12)], jnzb, |i| J { taken: r!(i, ra) != 0, target: bwd(&i, r!(i, rb) as u128 + i.imm12 as u128) });
jump!(c25_jnef, JNEF, [rid(i.ra), rid(i.rb), rid(i.rc), Imm06::new(i.imm06)], jnef, |i| J { taken: r!(i, ra) != r!(i, rb), target: fwd(&i, r!(i, rc) as u128 + i.imm06 as u128) });
jump!(c25_jneb, JNEB, [rid(i.ra), rid(i.rb), rid(i.rc), Imm06::new(i.imm06)], jneb, |i| J { taken: r!(i, ra) != r!(i, rb), target: bwd(&i, r!(i, rc) as u128 + i.imm06 as u128) });

// JAL: $rA := $pc + 4 (discarded for $zero, panic for other reserved registers), $pc := $rB + 4*imm.
// The case rA == rB (link register is also the target register) is left out of the specification.
#[kani::proof]
#[kani::unwind(70)]
#[kani::stub(crate::constraints::reg_key::split_registers, split_registers_model)]
#[kani::stub(core::result::Result::expect, expect_model)]
#[kani::stub(core::result::Result::unwrap, unwrap_model)]
pub fn c25_jal() {
    let mut i = any_in();
    let cost = i.gas.jmp;
    i.cost = cost;
    kani::assume(i.ra != i.rb);
    let target = i.src(i.rb) as u128 + 4 * i.imm12 as u128;
    let mut vm = mk_vm(i.regs, MemoryInstance::new(), i.gas.clone());
    let res = op::JAL::new(rid(i.ra), rid(i.rb), Imm12::new(i.imm12)).execute(&mut vm);
    if let Some(mut exp) = charge(&i.regs, &vm.registers, &res, cost, i.probe) {
        if i.ra != 0 && i.ra < VM_REGISTER_SYSTEM_COUNT {
            assert!(matches!(res, Err(RuntimeError::Recoverable(PanicReason::ReservedRegisterNotWritable))));
            assert!(vm.registers[i.probe] == exp[i.probe]);
            kani::cover!(true, "reserved link register");
        } else if target >= VM_MAX_RAM as u128 {
            assert!(matches!(res, Err(RuntimeError::Recoverable(PanicReason::MemoryOverflow))));
            assert!(vm.registers[R_PC] == i.regs[R_PC]);
            kani::cover!(true, "target outside memory");
        } else {
            assert!(matches!(res, Ok(ExecuteState::Proceed)));
            if i.ra != 0 { exp[i.ra] = i.regs[R_PC] + 4; }
            exp[R_PC] = target as Word;
            assert!(vm.registers[i.probe] == exp[i.probe]);
            kani::cover!(i.ra != 0, "link stored and jumped");
            kani::cover!(i.ra == 0, "link discarded and jumped");
        }
    }
    core::mem::forget(vm);
}

// ---- C26 kernel: gas charging for all u64 inputs ------------------------------------------
#[kani::proof]
#[kani::stub(crate::constraints::reg_key::split_registers, split_registers_model)]
pub fn c26_gas_charge() {
    let i = any_in();
    let cost: Word = kani::any();
    let mut vm = mk_vm(i.regs, MemoryInstance::new(), GasCostsValuesV7::unit());
    let r = vm.gas_charge(cost);
    let (cg, gg) = (i.regs[R_CGAS], i.regs[R_GGAS]);
    let mut exp = i.regs;
    if cost > cg {
        assert!(matches!(r, Err(crate::error::PanicOrBug::Panic(PanicReason::OutOfGas))));
        exp[R_CGAS] = 0; exp[R_GGAS] = gg - cg;
        kani::cover!(true, "out of gas");
    } else {
        assert!(r.is_ok());
        exp[R_CGAS] = cg - cost; exp[R_GGAS] = gg - cost;
        kani::cover!(cost == cg, "exactly enough gas");
    }
    assert!(vm.registers[i.probe] == exp[i.probe]);
    assert!(vm.registers[R_CGAS] <= vm.registers[R_GGAS] && vm.registers[R_GGAS] <= gg);
    core::mem::forget(vm);
}

fn resolve_spec(c: DependentCost, units: Word, with_base: bool) -> (Word, bool) {
    // returns (cost, relation-ok) ; for LightOperation the quotient is checked in witness form
    match c {
        DependentCost::LightOperation { base, units_per_gas } => {
            let q = units / units_per_gas;
            let ok = match q.checked_mul(units_per_gas) { Some(x) => x <= units && units - x < units_per_gas, None => false };
            (if with_base { base.saturating_add(q) } else { q }, ok)
        }
        DependentCost::HeavyOperation { base, gas_per_unit } => {
            let m = units as u128 * gas_per_unit as u128;
            let m = if m > Word::MAX as u128 { Word::MAX } else { m as Word };
            (if with_base { base.saturating_add(m) } else { m }, true)
        }
    }
}
#[kani::proof]
pub fn c26_dependent_cost_resolve_heavy() {
    let (base, x, units): (Word, Word, Word) = (kani::any(), kani::any(), kani::any());
    let c = DependentCost::HeavyOperation { base, gas_per_unit: x };
    let (e1, _) = resolve_spec(c, units, true);
    let (e2, _) = resolve_spec(c, units, false);
    assert!(c.resolve(units) == e1);
    assert!(c.resolve_without_base(units) == e2);
    assert!(c.base() == base);
    kani::cover!(e1 == Word::MAX, "heavy saturating");
    kani::cover!(e1 < Word::MAX, "heavy exact");
}
/// LightOperation for one *concrete* divisor (the 64-bit divider with a symbolic divisor does not
/// finish in CBMC/cadical, not even against the same `/` operator: every division gets fresh
/// quotient/remainder variables).  Witness form: q = floor(units/per) <=> q*per <= units < q*per+per.
#[inline(always)]
fn check_light(per: Word, base: Word, units: Word) {
    let c = DependentCost::LightOperation { base, units_per_gas: per };
    let q = c.resolve_without_base(units);
    match q.checked_mul(per) { Some(x) => assert!(x <= units && units - x < per), None => assert!(false) }
    assert!(c.resolve(units) == base.saturating_add(q));
    assert!(c.base() == base);
}
#[kani::proof]
pub fn c26_dependent_cost_resolve_light() {
    let (base, units): (Word, Word) = (kani::any(), kani::any());
    check_light(1, base, units);
    check_light(2, base, units);
    check_light(3, base, units);
    check_light(7, base, units);
    check_light(10, base, units);
    check_light(1000, base, units);
    check_light((1 << 32) + 1, base, units);
    check_light(Word::MAX, base, units);
    kani::cover!(true, "all divisors checked");
    kani::cover!(base.checked_add(units).is_none(), "saturating base + quotient");
}
#[kani::proof]
#[kani::stub(crate::constraints::reg_key::split_registers, split_registers_model)]
pub fn c26_dependent_gas_charge() {
    let i = any_in();
    let base: Word = kani::any();
    let x: Word = kani::any();
    let units: Word = kani::any();
    // heavy operations at full width; light operations (division) are decided in c26_dependent_cost_resolve
    let c = DependentCost::HeavyOperation { base, gas_per_unit: x };
    let with_base: bool = kani::any();
    let (cost, _) = resolve_spec(c, units, with_base);
    let mut vm = mk_vm(i.regs, MemoryInstance::new(), GasCostsValuesV7::unit());
    let r = if with_base { vm.dependent_gas_charge(c, units) } else { vm.dependent_gas_charge_without_base(c, units) };
    let (cg, gg) = (i.regs[R_CGAS], i.regs[R_GGAS]);
    let mut exp = i.regs;
    if cost > cg {
        assert!(matches!(r, Err(crate::error::PanicOrBug::Panic(PanicReason::OutOfGas))));
        exp[R_CGAS] = 0; exp[R_GGAS] = gg - cg;
    } else {
        assert!(r.is_ok());
        exp[R_CGAS] = cg - cost; exp[R_GGAS] = gg - cost;
        kani::cover!(true, "charged");
    }
    assert!(vm.registers[i.probe] == exp[i.probe]);
    core::mem::forget(vm);
}
