// C23 — VM memory behaves like a zero-initialised array with two regions.
// One-step obligations from an arbitrary representation state m |= MINV (contents symbolic,
// including the dirty heap bytes below hp).  Sizes/offsets are unrestricted u64; the bound is on
// the number of *initialised* bytes: stack.len() = LS, heap.len() = LH (harness constants).

#[allow(dead_code, unused_variables, unused_mut)]
pub(crate) mod c23 {
    use super::*;

    /// Arbitrary m |= MINV with stack.len() == ls and heap.len() == lh.
    pub(crate) fn any_mem(ls: usize, lh: usize) -> MemoryInstance { any_mem_hp(ls, lh, None) }
    /// `hp_below`: Some(d) fixes hp = MEM_SIZE - d (harness constant); None = symbolic hp.
    pub(crate) fn any_mem_hp(ls: usize, lh: usize, hp_below: Option<usize>) -> MemoryInstance {
        let mut stack: Vec<u8> = Vec::with_capacity(ls);
        let mut i = 0;
        while i < ls { stack.push(kani::any()); i += 1; }
        let mut heap: Vec<u8> = Vec::with_capacity(lh);
        let mut i = 0;
        while i < lh { heap.push(kani::any()); i += 1; }
        let hp: usize = match hp_below { Some(d) => MEM_SIZE - d, None => kani::any() };
        kani::assume(hp <= MEM_SIZE && hp >= MEM_SIZE - lh);
        let m = MemoryInstance::verif_from_parts(stack, heap, hp);
        assert!(m.verif_minv());
        m
    }

    /// accessible(m, [s, e)) per the property statement
    fn accessible(m: &MemoryInstance, s: u128, e: u128) -> bool {
        e <= m.stack.len() as u128 || s >= m.hp as u128
    }

    macro_rules! mh {
        ($name:ident, $unw:literal, $body:block) => {
            #[kani::proof]
            #[kani::unwind($unw)]
            #[kani::stub(core::result::Result::expect, crate::interpreter::memory::verif::c23::expect_model)]
            #[kani::stub(core::result::Result::unwrap, crate::interpreter::memory::verif::c23::unwrap_model)]
            pub fn $name() $body
        };
    }
    pub(crate) fn expect_model<T, E: core::fmt::Debug>(r: Result<T, E>, _msg: &str) -> T {
        match r { Ok(t) => t, Err(_) => panic!("Result::expect on Err") }
    }
    pub(crate) fn unwrap_model<T, E: core::fmt::Debug>(r: Result<T, E>) -> T {
        match r { Ok(t) => t, Err(_) => panic!("Result::unwrap on Err") }
    }

    const LS: usize = 12;
    const LH: usize = 16;

    // verify: Ok exactly when in range and accessible; specified reasons otherwise
    mh!(c23_verify, 20, {
        let m = any_mem(LS, LH);
        let (addr, count): (Word, Word) = (kani::any(), kani::any());
        let r = m.verify(addr, count);
        let (s, e) = (addr as u128, addr as u128 + count as u128);
        if addr > MEM_SIZE as Word || count > MEM_SIZE as Word || e > MEM_SIZE as u128 {
            assert!(r == Err(PanicReason::MemoryOverflow));
            kani::cover!(true, "overflow");
        } else if accessible(&m, s, e) {
            match r { Ok(range) => assert!(range.start() == addr as usize && range.end() == e as usize), Err(_) => assert!(false) }
            kani::cover!(e <= LS as u128 && count > 0, "stack range");
            kani::cover!(s >= m.hp as u128 && count > 0, "heap range");
        } else {
            assert!(r == Err(PanicReason::UninitalizedMemoryAccess));
            kani::cover!(s < LS as u128 && e > LS as u128, "straddles stack end");
            kani::cover!(s < m.hp as u128 && e > m.hp as u128, "straddles heap pointer");
        }
        core::mem::forget(m);
    });

    // read: returns exactly the flat bytes
    mh!(c23_read, 40, {
        let m = any_mem(LS, LH);
        let (addr, count): (Word, Word) = (kani::any(), kani::any());
        let k: usize = kani::any();
        match m.read(addr, count) {
            Ok(slice) => {
                assert!(slice.len() as Word == count);
                assert!(accessible(&m, addr as u128, addr as u128 + count as u128));
                if (k as Word) < count {
                    assert!(Some(slice[k]) == m.verif_flat(addr as usize + k));
                    kani::cover!(addr as usize >= m.hp, "heap byte read");
                    kani::cover!((addr as usize) < LS, "stack byte read");
                }
            }
            Err(e) => {
                assert!(m.verify(addr, count) == Err(e));
                kani::cover!(true, "read refused");
            }
        }
        core::mem::forget(m);
    });

    // write_noownerchecks + flat: the range takes the new bytes, everything else is unchanged
    mh!(c23_write, 40, {
        let mut m = any_mem(LS, LH);
        let (addr, count): (Word, Word) = (kani::any(), kani::any());
        kani::assume(count <= 4);
        let a: usize = kani::any(); // probe address
        let before = m.verif_flat(a);
        let fill: u8 = kani::any();
        let pre_ok = m.verify(addr, count);
        match m.write_noownerchecks(addr, count) {
            Ok(dst) => { assert!(dst.len() as Word == count); dst.fill(fill); assert!(pre_ok.is_ok()); }
            Err(e) => { assert!(pre_ok == Err(e)); }
        }
        let after = m.verif_flat(a);
        if pre_ok.is_ok() && a >= addr as usize && a < addr as usize + count as usize {
            assert!(after == Some(fill));
            kani::cover!(true, "probe inside written range");
        } else {
            assert!(after == before);
            kani::cover!(pre_ok.is_ok() && count > 0 && before.is_some(), "probe outside written range");
        }
        assert!(m.verif_minv());
        core::mem::forget(m);
    });

    // grow_stack: new bytes read 0, old bytes unchanged, overlap with the heap refused
    mh!(c23_grow_stack, 80, {
        let mut m = any_mem(LS, LH);
        // either a syntactically small target (at most LS + 31: bounds the freshly initialised bytes)
        // or an arbitrary one beyond the heap pointer (must be refused)
        let small: u8 = kani::any();
        let big: Word = kani::any();
        let (old_len, hp) = (m.stack.len(), m.hp);
        let new_sp: Word = if kani::any() { (small & 31) as Word + (if kani::any() { LS as Word } else { 0 }) } else { kani::assume(big > hp as Word); big };
        let a: usize = kani::any();
        let before = m.verif_flat(a);
        let r = m.grow_stack(new_sp);
        if new_sp > VM_MAX_RAM {
            assert!(r == Err(PanicReason::MemoryOverflow));
            assert!(m.verif_flat(a) == before);
        } else if new_sp as usize > old_len && new_sp as usize > hp {
            assert!(r == Err(PanicReason::MemoryGrowthOverlap));
            assert!(m.verif_flat(a) == before);
            kani::cover!(true, "growth into heap refused");
        } else {
            assert!(r.is_ok());
            assert!(m.hp == hp);
            if a >= old_len && a < new_sp as usize {
                assert!(m.verif_flat(a) == Some(0));
                kani::cover!(true, "new stack byte reads zero");
            } else {
                assert!(m.verif_flat(a) == before);
            }
            assert!(m.stack.len() == core::cmp::max(old_len, new_sp as usize));
        }
        assert!(m.verif_minv());
        core::mem::forget(m);
    });

    // grow_heap_by: hp' = hp - k; ALL k new bytes read zero whatever the dirty region held; bytes at
    // or above the old hp unchanged; stack truncated iff overtaken.
    /// `amount` and `hp = MEM_SIZE - d` are harness constants (a symbolic amount or hp makes the
    /// reallocation size symbolic: Vec::resize / fill / copy_within exhaust 16 GB); `$sp`, all
    /// contents (incl. the dirty bytes below hp) and the probe address are symbolic.
    fn grow_heap(lh: usize, d: usize, amount: Word) {
        let mut m = any_mem_hp(LS, lh, Some(d));
        let sp: Word = kani::any();
        kani::assume(sp <= m.stack.len() as Word || sp <= m.hp as Word);
        let mut hp_reg: Word = m.hp as Word;
        let a: usize = kani::any();
        let before = m.verif_flat(a);
        let (old_hp, old_stack) = (m.hp, m.stack.len());
        let r = m.grow_heap_by(Reg::new(&sp), RegMut::new(&mut hp_reg), amount);
        if amount > old_hp as Word {
            assert!(r == Err(PanicReason::MemoryOverflow));
            assert!(m.verif_flat(a) == before && m.hp == old_hp && hp_reg == old_hp as Word);
            kani::cover!(true, "more than the whole memory");
        } else if ((old_hp as Word) - amount) < sp {
            assert!(r == Err(PanicReason::MemoryGrowthOverlap));
            assert!(m.verif_flat(a) == before && m.hp == old_hp && hp_reg == old_hp as Word);
            kani::cover!(true, "growth into stack refused");
        } else {
            assert!(r.is_ok());
            let new_hp = old_hp - amount as usize;
            assert!(m.hp == new_hp && hp_reg == new_hp as Word);
            kani::cover!(true, "growth accepted");
            if a >= new_hp && a < old_hp {
                assert!(m.verif_flat(a) == Some(0));
                kani::cover!(true, "fresh heap byte reads zero");
            } else if a >= old_hp {
                assert!(m.verif_flat(a) == before);
                kani::cover!(a < MEM_SIZE, "old heap byte unchanged");
            } else if a < core::cmp::min(old_stack, new_hp) {
                assert!(m.verif_flat(a) == before);
            } else {
                assert!(m.verif_flat(a).is_none());
            }
            assert!(m.stack.len() == core::cmp::min(old_stack, new_hp));
        }
        assert!(m.verif_minv());
        core::mem::forget(m);
    }
    // heap empty -> first allocation (reallocation to 256)
    mh!(c23_grow_heap_first_0, 300, { grow_heap(0, 0, 0) });
    mh!(c23_grow_heap_first_1, 300, { grow_heap(0, 0, 1) });
    mh!(c23_grow_heap_first_8, 300, { grow_heap(0, 0, 8) });
    // heap of 256 bytes with dirty content below hp: in-place growth ...
    mh!(c23_grow_heap_dirty_d0_a8, 300, { grow_heap(256, 0, 8) });
    mh!(c23_grow_heap_dirty_d8_a24, 300, { grow_heap(256, 8, 24) });
    mh!(c23_grow_heap_dirty_d200_a56, 300, { grow_heap(256, 200, 56) });
    // ... and reallocation to 512 bytes when the request does not fit
    mh!(c23_grow_heap_dirty_d250_a8, 600, { grow_heap(256, 250, 8) });
    mh!(c23_grow_heap_dirty_d256_a1, 600, { grow_heap(256, 256, 1) });
    mh!(c23_grow_heap_huge, 300, { grow_heap(16, 8, u64::MAX) });
    mh!(c23_grow_heap_whole_plus1, 300, { grow_heap(16, 8, MEM_SIZE as Word - 7) });

    // memcopy: refused exactly when the ranges share a byte (set definition), copies otherwise
    mh!(c23_memcopy_overlap, 40, {
        let mut m = any_mem(LS, LH);
        let (dst, src, len): (Word, Word, Word) = (kani::any(), kani::any(), kani::any());
        kani::assume(len <= 6);
        let owner = OwnershipRegisters { sp: VM_MAX_RAM, ssp: 0, hp: VM_MAX_RAM, prev_hp: VM_MAX_RAM };
        let a: usize = kani::any();
        let before = m.verif_flat(a);
        let k: usize = kani::any();
        kani::assume((k as Word) < len);
        let src_byte = m.verif_flat((src as usize).wrapping_add(k));
        let (vd, vs) = (m.verify(dst, len), m.verify(src, len));
        let r = m.memcopy(dst, src, len, owner);
        if let (Ok(_), Ok(_)) = (&vd, &vs) {
            let share = core::cmp::max(dst, src) < core::cmp::min(dst + len, src + len);
            if share {
                assert!(r == Err(PanicReason::MemoryWriteOverlap));
                assert!(m.verif_flat(a) == before);
                kani::cover!(dst != src, "partial overlap refused");
                kani::cover!(dst == src, "identical ranges refused");
            } else if r.is_ok() {
                // (ownership of dst is decided by has_ownership_*; with the full-stack owner a heap
                // destination is refused, which is fine for this clause)
                if a >= dst as usize && a < (dst + len) as usize {
                    if a == dst as usize + k { assert!(m.verif_flat(a) == src_byte); kani::cover!(true, "copied byte"); }
                } else {
                    assert!(m.verif_flat(a) == before);
                }
            } else {
                assert!(r == Err(PanicReason::MemoryOwnership));
                assert!(m.verif_flat(a) == before);
            }
        } else {
            assert!(r.is_err());
            assert!(m.verif_flat(a) == before);
        }
        assert!(m.verif_minv());
        core::mem::forget(m);
    });

    // reset: nothing accessible afterwards; regrown stack reads zero
    mh!(c23_reset, 80, {
        let mut m = any_mem(LS, LH);
        m.reset();
        let a: usize = kani::any();
        assert!(m.verif_flat(a).is_none());
        assert!(m.verif_minv() && m.hp == MEM_SIZE && m.stack.len() == 0);
        let (addr, count): (Word, Word) = (kani::any(), kani::any());
        kani::assume(count >= 1);
        assert!(m.verify(addr, count).is_err());
        let n8: u8 = kani::any();
        let n: Word = (n8 & 15) as Word;
        assert!(m.grow_stack(n).is_ok());
        if a < n as usize { assert!(m.verif_flat(a) == Some(0)); kani::cover!(true, "regrown stack byte is zero"); }
        core::mem::forget(m);
    });

    // ownership: verify_ownership against the set definition for all ranges and register values
    mh!(c23_ownership, 20, {
        let (ssp, sp, hp, prev_hp): (Word, Word, Word, Word) = (kani::any(), kani::any(), kani::any(), kani::any());
        kani::assume(ssp <= sp && sp <= hp && hp <= prev_hp && prev_hp <= VM_MAX_RAM);
        let o = OwnershipRegisters { sp, ssp, hp, prev_hp };
        let (s, e): (usize, usize) = (kani::any(), kani::any());
        kani::assume(s < e && e <= MEM_SIZE); // non-empty, in-range
        let r = o.verify_ownership(&MemoryRange(s..e));
        let (s, e) = (s as Word, e as Word);
        let owned = (ssp <= s && e <= sp) || (hp <= s && e <= prev_hp);
        assert!(r.is_ok() == owned);
        if !owned { assert!(r == Err(PanicReason::MemoryOwnership)); }
        kani::cover!(ssp <= s && e <= sp, "stack owned");
        kani::cover!(hp <= s && e <= prev_hp, "heap owned");
        kani::cover!(s < sp && e > sp, "crosses sp");
    });
}
