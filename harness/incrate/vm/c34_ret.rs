// C34 — calls and returns preserve the caller's frame: the RET step (one frame, symbolic saved
// registers) and RET from the top-level script context.
use super::*;
use super::c21_alu::charge;
use super::memops::{any_state, LS};
use crate::call::CallFrame;
use fuel_types::AssetId;

fn rid(i: usize) -> RegId { RegId::new(i as u8) }
pub(crate) fn toy_leaf(data: &[u8]) -> [u8; 32] {
    let n = data.len();
    let b0 = if n > 0 { data[0] } else { 0 };
    let mut o = [0u8; 32];
    o[0] = b0; o[1] = n as u8; o[2] = (n >> 8) as u8;
    o
}
pub(crate) fn toy_node(l: &[u8; 32], r: &[u8; 32]) -> [u8; 32] {
    let mut o = [0u8; 32];
    o[0] = l[0] ^ r[1]; o[1] = l[1].wrapping_add(r[0]); o[2] = 1;
    o
}

macro_rules! rh {
    ($name:ident, $body:block) => {
        #[kani::proof]
        #[kani::unwind(70)]
        #[kani::stub(crate::constraints::reg_key::split_registers, split_registers_model)]
        #[kani::stub(core::result::Result::expect, expect_model)]
        #[kani::stub(core::result::Result::unwrap, unwrap_model)]
        #[kani::stub(fuel_merkle::binary::hash::leaf_sum, toy_leaf)]
        #[kani::stub(fuel_merkle::binary::hash::node_sum, toy_node)]
        pub fn $name() $body
    };
}

// RET inside a call: one frame whose 64 saved registers are symbolic
rh!(c34_ret_from_call, {
    let (mut i, mem) = any_state();
    i.ra = 0x10; // register id concrete (value symbolic)
    // a call frame exists: $fp points at it (inside the initialised stack), context = Call
    let fp: Word = kani::any();
    kani::assume(fp >= 1 && fp <= i.regs[R_SSP] && fp as usize + 32 <= LS);
    i.regs[R_FP] = fp;
    let saved: [Word; VM_REGISTER_COUNT] = kani::any();
    let cost = i.gas.ret;
    // gas part of VMINV for the saved frame: frame.cgas + $cgas <= $ggas
    kani::assume(saved[R_CGAS] <= i.regs[R_GGAS] - i.regs[R_CGAS]);
    kani::assume(saved[R_PC] < VM_MAX_RAM);
    let frame = CallFrame::new(ContractId::zeroed(), AssetId::zeroed(), saved, 0, kani::any(), kani::any()).unwrap();
    let before = mem.verif_flat(i.a);
    let mut vm = mk_vm(i.regs, mem, i.gas.clone());
    vm.frames.push(frame);
    vm.context = Context::Call { block_height: Default::default() };
    let ret_val = i.regs[i.ra];
    let res = op::RET::new(rid(i.ra)).execute(&mut vm);
    if let Some(after_charge) = charge(&i.regs, &vm.registers, &res, cost, i.probe) {
        match res {
            Ok(ExecuteState::Return(v)) => assert!(v == ret_val),
            _ => assert!(false, "RET must return"),
        }
        // every register restored from the frame, except $cgas, $ggas, $ret, $retl, $hp
        let mut exp = saved;
        exp[R_CGAS] = after_charge[R_CGAS] + saved[R_CGAS];
        exp[R_GGAS] = after_charge[R_GGAS];
        exp[R_RET] = ret_val;
        exp[R_RETL] = 0;
        exp[R_HP] = i.regs[R_HP];
        exp[R_PC] = saved[R_PC] + 4;
        assert!(vm.registers[i.probe] == exp[i.probe]);
        assert!(vm.frames.is_empty(), "call depth back to the previous value");
        assert!(vm.receipts.len() == 1);
        assert!(vm.registers[R_CGAS] <= vm.registers[R_GGAS]);
        // context follows the restored frame pointer
        if saved[R_FP] == 0 { assert!(matches!(vm.context, Context::Script { .. })); kani::cover!(true, "returned to the script"); }
        else { assert!(matches!(vm.context, Context::Call { .. })); kani::cover!(true, "returned to an outer call"); }
    } else {
        assert!(vm.frames.len() == 1);
        kani::cover!(true, "out of gas");
    }
    assert!(vm.memory.verif_flat(i.a) == before, "RET does not touch memory");
    core::mem::forget(vm);
});

// RET at top level (no frame): registers keep their values except $ret/$retl/$pc and gas
rh!(c34_ret_from_script, {
    let (mut i, mem) = any_state();
    i.ra = 0x10;
    let cost = i.gas.ret;
    let before = mem.verif_flat(i.a);
    let mut vm = mk_vm(i.regs, mem, i.gas.clone());
    vm.context = Context::Script { block_height: Default::default() };
    let ret_val = i.regs[i.ra];
    let res = op::RET::new(rid(i.ra)).execute(&mut vm);
    if let Some(mut exp) = charge(&i.regs, &vm.registers, &res, cost, i.probe) {
        assert!(matches!(res, Ok(ExecuteState::Return(v)) if v == ret_val));
        exp[R_RET] = ret_val; exp[R_RETL] = 0; exp[R_PC] = i.regs[R_PC] + 4;
        assert!(vm.registers[i.probe] == exp[i.probe]);
        assert!(vm.frames.is_empty() && vm.receipts.len() == 1);
        kani::cover!(true, "script returned");
    }
    assert!(vm.memory.verif_flat(i.a) == before);
    core::mem::forget(vm);
});
