// C19 (second half) — the free balances a checked transaction records equal, per asset, the sum of
// spendable input amounts minus coin outputs, minus the fee limit for the base asset; a transaction
// whose coin outputs or fee limit exceed its inputs is rejected.  Real `initial_free_balances`
// against a wide-integer reference; asset ids are harness constants, all amounts symbolic.
use super::*;

const BASE: AssetId = AssetId::new([0x0B; 32]);
const OTHER: AssetId = AssetId::new([0x77; 32]);
const THIRD: AssetId = AssetId::new([0x99; 32]);

fn coin(asset: AssetId, amount: Word) -> Input {
    Input::coin_signed(UtxoId::default(), Address::zeroed(), amount, asset, TxPointer::default(), 0)
}
fn coin_pred(asset: AssetId, amount: Word) -> Input {
    Input::coin_predicate(UtxoId::default(), Address::zeroed(), amount, asset, TxPointer::default(), 0, alloc::vec![1u8], Vec::new())
}
fn msg_coin(amount: Word) -> Input { Input::message_coin_signed(Address::zeroed(), Address::zeroed(), amount, Nonce::zeroed(), 0) }
fn msg_coin_pred(amount: Word) -> Input {
    Input::message_coin_predicate(Address::zeroed(), Address::zeroed(), amount, Nonce::zeroed(), 0, alloc::vec![1u8], Vec::new())
}
fn msg_data(amount: Word) -> Input { Input::message_data_signed(Address::zeroed(), Address::zeroed(), amount, Nonce::zeroed(), 0, alloc::vec![7u8]) }
fn contract() -> Input { Input::contract(UtxoId::default(), Default::default(), Default::default(), TxPointer::default(), Default::default()) }

/// Reference: (base inputs, other inputs, other-present, retryable) as exact sums, fee, coin outputs.
struct Ref { base_in: u128, other_in: u128, other_present: bool, retry: u128, fee: Option<Word>, out_base: [Word; 2], n_out_base: usize, out_other: [Word; 2], n_out_other: usize, out_third: bool }

fn check(tx: &fuel_tx::Script, r: Ref) {
    let got = initial_free_balances(tx, &BASE);
    let max = u64::MAX as u128;
    // inputs are summed first (running checked sums: they overflow iff the exact total exceeds u64::MAX,
    // for the base asset only counting what has been added when a later asset overflows is irrelevant: any overflow rejects)
    if r.base_in > max || r.other_in > max || r.retry > max {
        assert!(matches!(got, Err(ValidityError::BalanceOverflow)));
        kani::cover!(true, "input sum overflow rejected");
        return
    }
    let Some(fee) = r.fee else {
        assert!(matches!(got, Err(ValidityError::TransactionMaxFeeNotSet)));
        return
    };
    if (fee as u128) > r.base_in {
        assert!(matches!(got, Err(ValidityError::InsufficientFeeAmount { .. })));
        kani::cover!(true, "fee limit above the base inputs rejected");
        return
    }
    // coin outputs are deducted in output order; the first failing one decides the error
    let mut base = r.base_in - fee as u128;
    let mut other = r.other_in;
    // the harness orders outputs: base outputs, then other outputs, then the third-asset output
    let mut i = 0;
    while i < r.n_out_base {
        if (r.out_base[i] as u128) > base {
            assert!(matches!(got, Err(ValidityError::InsufficientInputAmount { asset, .. }) if asset == BASE));
            kani::cover!(true, "base coin outputs above the inputs rejected");
            return
        }
        base -= r.out_base[i] as u128;
        i += 1;
    }
    let mut i = 0;
    while i < r.n_out_other {
        if !r.other_present {
            assert!(matches!(got, Err(ValidityError::TransactionOutputCoinAssetIdNotFound(a)) if a == OTHER));
            kani::cover!(true, "coin output of an asset without inputs rejected");
            return
        }
        if (r.out_other[i] as u128) > other {
            assert!(matches!(got, Err(ValidityError::InsufficientInputAmount { asset, .. }) if asset == OTHER));
            return
        }
        other -= r.out_other[i] as u128;
        i += 1;
    }
    if r.out_third {
        assert!(matches!(got, Err(ValidityError::TransactionOutputCoinAssetIdNotFound(a)) if a == THIRD));
        return
    }
    match got {
        Ok(AvailableBalances { non_retryable_balances, retryable_balance }) => {
            assert!(retryable_balance as u128 == r.retry);
            assert!(non_retryable_balances.get(&BASE).copied() == Some(base as Word));
            if r.other_present {
                assert!(non_retryable_balances.get(&OTHER).copied() == Some(other as Word));
                assert!(non_retryable_balances.len() == 2);
            } else {
                assert!(non_retryable_balances.len() == 1);
            }
            kani::cover!(true, "balances recorded");
            core::mem::forget(non_retryable_balances);
        }
        Err(_) => assert!(false, "specification-valid balances must be accepted"),
    }
}

fn policies(fee: Option<Word>) -> Policies {
    let mut p = Policies::new();
    if let Some(f) = fee { p.set(PolicyType::MaxFee, Some(f)); }
    p.set(PolicyType::Tip, Some(kani::any()));
    p
}

macro_rules! bh {
    ($name:ident, $body:block) => {
        #[kani::proof]
        #[kani::unwind(8)]
        #[kani::stub(core::result::Result::expect, expect_model)]
        #[kani::stub(core::result::Result::unwrap, unwrap_model)]
        pub fn $name() $body
    };
}

// every input kind once, two assets, outputs of every kind
bh!(c19_balances_mixed, {
    let (a1, a2, a3, a4, a5): (Word, Word, Word, Word, Word) = (kani::any(), kani::any(), kani::any(), kani::any(), kani::any());
    let (o1, o2): (Word, Word) = (kani::any(), kani::any());
    let fee: Option<Word> = if kani::any() { Some(kani::any()) } else { None };
    let tx = Transaction::script(0, Vec::new(), Vec::new(), policies(fee),
        alloc::vec![coin(BASE, a1), msg_coin(a2), msg_data(a3), contract(), coin_pred(OTHER, a4), msg_coin_pred(a5)],
        alloc::vec![Output::coin(Address::zeroed(), o1, BASE), Output::change(Address::zeroed(), kani::any(), BASE),
                    Output::variable(Address::zeroed(), kani::any(), OTHER), Output::coin(Address::zeroed(), o2, OTHER),
                    Output::contract(3, Default::default(), Default::default())],
        Vec::new());
    check(&tx, Ref { base_in: a1 as u128 + a2 as u128 + a5 as u128, other_in: a4 as u128, other_present: true, retry: a3 as u128, fee,
                     out_base: [o1, 0], n_out_base: 1, out_other: [o2, 0], n_out_other: 1, out_third: false });
    core::mem::forget(tx);
});

// base asset only through messages; a coin output of an asset that no input carries
bh!(c19_balances_messages_only, {
    let (a1, a2, a3): (Word, Word, Word) = (kani::any(), kani::any(), kani::any());
    let (o1, o2): (Word, Word) = (kani::any(), kani::any());
    let fee: Word = kani::any();
    let third: bool = kani::any();
    let mut outs = alloc::vec![Output::coin(Address::zeroed(), o1, BASE), Output::coin(Address::zeroed(), o2, BASE)];
    if third { outs.push(Output::coin(Address::zeroed(), kani::any(), THIRD)); }
    let tx = Transaction::script(0, Vec::new(), Vec::new(), policies(Some(fee)),
        alloc::vec![msg_coin(a1), msg_coin_pred(a2), msg_data(a3)], outs, Vec::new());
    check(&tx, Ref { base_in: a1 as u128 + a2 as u128, other_in: 0, other_present: false, retry: a3 as u128, fee: Some(fee),
                     out_base: [o1, o2], n_out_base: 2, out_other: [0, 0], n_out_other: 0, out_third: third });
    core::mem::forget(tx);
});

// two coins of the same non-base asset, data messages summing up, OTHER coin output without OTHER input is covered above
bh!(c19_balances_same_asset_twice, {
    let (a1, a2, a3, a4): (Word, Word, Word, Word) = (kani::any(), kani::any(), kani::any(), kani::any());
    let (o1, o2): (Word, Word) = (kani::any(), kani::any());
    let fee: Word = kani::any();
    let tx = Transaction::script(0, Vec::new(), Vec::new(), policies(Some(fee)),
        alloc::vec![coin(OTHER, a1), coin_pred(OTHER, a2), msg_data(a3), msg_data(a4)],
        alloc::vec![Output::coin(Address::zeroed(), o1, OTHER), Output::coin(Address::zeroed(), o2, OTHER)], Vec::new());
    check(&tx, Ref { base_in: 0, other_in: a1 as u128 + a2 as u128, other_present: true, retry: a3 as u128 + a4 as u128, fee: Some(fee),
                     out_base: [0, 0], n_out_base: 0, out_other: [o1, o2], n_out_other: 2, out_third: false });
    core::mem::forget(tx);
});
