// C20 — predicate checking: the aggregation step `finalize_check_predicate` for ARBITRARY per-predicate
// outcomes (the predicate runs themselves are whole-VM executions, outside this technique):
//  * verification verdict and total gas do not depend on the order in which the per-predicate results
//    arrive (sequential vs parallel executors),
//  * estimation writes back exactly the gas each predicate used, so that the estimated transaction
//    declares, per predicate, the gas the run used (the "estimate then verify" link),
//  * the total is the checked sum; any failed predicate fails the transaction.
use super::*;

fn pred(gas: Word) -> Input {
    Input::coin_predicate(UtxoId::default(), Address::zeroed(), 1, AssetId::zeroed(), TxPointer::default(), gas, alloc::vec![1u8, 2, 3, 4], Vec::new())
}
fn msg_pred(gas: Word) -> Input {
    Input::message_coin_predicate(Address::zeroed(), Address::zeroed(), 1, Nonce::zeroed(), gas, alloc::vec![9u8], Vec::new())
}
fn msg_data_pred(gas: Word) -> Input {
    Input::message_data_predicate(Address::zeroed(), Address::zeroed(), 1, Nonce::zeroed(), gas, alloc::vec![5u8], alloc::vec![9u8], Vec::new())
}

fn params(max_gas_per_tx: Word) -> CheckPredicateParams {
    CheckPredicateParams {
        gas_costs: GasCosts::free(),
        chain_id: ChainId::new(0),
        max_gas_per_predicate: u64::MAX,
        max_gas_per_tx,
        max_inputs: 8,
        contract_max_size: 1024,
        max_message_data_length: 1024,
        max_storage_slot_length: 1024,
        tx_offset: 400,
        fee_params: FeeParameters::DEFAULT,
        base_asset_id: AssetId::zeroed(),
    }
}

/// An arbitrary per-predicate outcome as a plain descriptor (kind, gas); the Result handed to the code
/// under test is built from it each time it is needed (cloning / dropping PredicateVerificationFailed
/// values with a symbolic variant drags the drop glue of every variant into the formula).
#[derive(Clone, Copy)]
struct Outcome { kind: u8, gas: Word }
impl Outcome {
    fn any() -> Self { let kind: u8 = kani::any(); kani::assume(kind < 4); Outcome { kind, gas: kani::any() } }
    fn is_ok(&self) -> bool { self.kind == 0 }
    fn clone(&self) -> Self { *self }
    fn mk(&self, index: usize) -> Result<Word, PredicateVerificationFailed> {
        match self.kind {
            0 => Ok(self.gas),
            1 => Err(PredicateVerificationFailed::False { index }),
            2 => Err(PredicateVerificationFailed::GasMismatch { index }),
            _ => Err(PredicateVerificationFailed::InvalidOwner { index }),
        }
    }
}
fn any_outcome(_index: usize) -> Outcome { Outcome::any() }
fn gas_of(r: &Outcome) -> Option<Word> { if r.is_ok() { Some(r.gas) } else { None } }

/// K5: Chargeable::gas_used_by_inputs de-duplicates witness indices in a HashSet.  Its value only feeds the
/// max_gas <= max_gas_per_tx comparison; the model returns an ARBITRARY amount.
pub(crate) fn gas_inputs_model(_tx: &Script, _gas_costs: &GasCosts) -> Word { kani::any() }

macro_rules! ph {
    ($name:ident, $body:block) => {
        #[kani::proof]
        #[kani::unwind(12)]
        #[kani::stub(core::result::Result::expect, expect_model)]
        #[kani::stub(core::result::Result::unwrap, unwrap_model)]
        #[kani::stub(crate::error::Bug::new, crate::error::Bug::verif_new)]
        pub fn $name() $body
    };
}

fn tx2() -> Script {
    Transaction::script(kani::any(), Vec::new(), Vec::new(), Policies::new(),
        alloc::vec![pred(kani::any()), msg_data_pred(kani::any())], Vec::new(), Vec::new())
}

// verification: result for arrival order (0,1) vs (1,0) of the same outcomes.  (Two predicate inputs: with
// three, CBMC no longer treats the input variants as constants inside Chargeable::gas_used_by_inputs and
// explores its HashSet insert, K5.)
ph!(c20_finalize_order_independent, {
    let tx = tx2();
    let p = params(kani::any());
    let (r0, r1) = (any_outcome(0), any_outcome(1));
    let seq = alloc::vec![(0usize, r0.mk(0)), (1usize, r1.mk(1))];
    let par = alloc::vec![(1usize, r1.mk(1)), (0usize, r0.mk(0))];
    let a = finalize_check_predicate(PredicateRunKind::Verifying(&tx), seq, &p);
    let b = finalize_check_predicate(PredicateRunKind::Verifying(&tx), par, &p);
    let all_ok = r0.is_ok() && r1.is_ok();
    let total = gas_of(&r0).unwrap_or(0) as u128 + gas_of(&r1).unwrap_or(0) as u128;
    // (the gas-allowance verdict depends on the arbitrary input-gas model and is left free; it is checked to
    //  be the only other way to fail)
    let over_a = matches!(a, Err(PredicateVerificationFailed::TransactionExceedsTotalGasAllowance(_)));
    let over_b = matches!(b, Err(PredicateVerificationFailed::TransactionExceedsTotalGasAllowance(_)));
    if over_a || over_b {
        kani::cover!(true, "over the transaction gas allowance");
    } else if all_ok && total <= u64::MAX as u128 {
        match (&a, &b) {
            (Ok(x), Ok(y)) => { assert!(x.gas_used() as u128 == total && y.gas_used() == x.gas_used()); }
            _ => assert!(false, "all predicates passed: the transaction passes, in any arrival order"),
        }
        kani::cover!(true, "accepted with the summed gas");
    } else {
        assert!(a.is_err() && b.is_err(), "a failed predicate or an overflowing total fails the transaction in any order");
        kani::cover!(all_ok, "gas total overflow");
        kani::cover!(!all_ok, "failed predicate");
    }
    core::mem::forget(a); core::mem::forget(b);
    core::mem::forget(tx);
});

// estimation: the gas each predicate used is written to exactly that input; failed ones are untouched
ph!(c20_finalize_estimation_writes_gas, {
    let (g0, g1): (Word, Word) = (kani::any(), kani::any());
    let mut tx = Transaction::script(kani::any(), Vec::new(), Vec::new(), Policies::new(),
        alloc::vec![pred(g0), msg_data_pred(g1)], Vec::new(), Vec::new());
    let p = params(u64::MAX);
    let (r0, r1) = (any_outcome(0), any_outcome(1));
    // results arrive in reverse submission order
    let checks = alloc::vec![(1usize, r1.mk(1)), (0usize, r0.mk(0))];
    let res = finalize_check_predicate(PredicateRunKind::Estimating(&mut tx), checks, &p);
    core::mem::forget(res);
    assert!(tx.inputs()[0].predicate_gas_used() == Some(gas_of(&r0).unwrap_or(g0)));
    assert!(tx.inputs()[1].predicate_gas_used() == Some(gas_of(&r1).unwrap_or(g1)));
    kani::cover!(r0.is_ok() && !r1.is_ok(), "mixed outcomes");
    core::mem::forget(tx);
});
