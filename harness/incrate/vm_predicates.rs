// In-crate Kani harnesses for `executors::main::predicates` (hook inside that module): access to the
// private finalize_check_predicate / check_predicate.
include!(concat!(env!("FUELLABS_FUEL_VM_VERIF_DIR"), "/incrate/build_stamp.rs"));

use super::*;
use fuel_tx::{field::Inputs, policies::Policies, Script, Transaction, TxPointer, UtxoId};
use fuel_types::{Address, AssetId, ChainId, Nonce};

pub(crate) fn expect_model<T, E: core::fmt::Debug>(r: Result<T, E>, _msg: &str) -> T {
    match r { Ok(t) => t, Err(_) => panic!("Result::expect on Err") }
}
pub(crate) fn unwrap_model<T, E: core::fmt::Debug>(r: Result<T, E>) -> T {
    match r { Ok(t) => t, Err(_) => panic!("Result::unwrap on Err") }
}

#[allow(dead_code, unused_imports, unused_variables, unused_mut, clippy::all)]
pub(crate) mod c20 {
    include!(concat!(env!("FUELLABS_FUEL_VM_VERIF_DIR"), "/incrate/vm/c20_predicates.rs"));
}

/// Counterexample replay (lib/replay.py): generated concrete-playback tests.
#[cfg(verif_playback_predicates)]
mod verif_playback {
    include!(env!("VERIF_PLAYBACK_FILE"));
}
