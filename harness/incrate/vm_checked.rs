// In-crate Kani harnesses for fuel-vm/src/checked_transaction.rs (hook H4): access to the
// pub(crate) `balances::initial_free_balances`.
include!(concat!(env!("FUELLABS_FUEL_VM_VERIF_DIR"), "/incrate/build_stamp.rs"));

use super::balances::{initial_free_balances, AvailableBalances};
use alloc::vec::Vec;
use fuel_tx::{policies::{Policies, PolicyType}, Input, Output, Transaction, TxPointer, UtxoId, ValidityError};
use fuel_types::{Address, AssetId, Nonce, Word};

pub(crate) fn expect_model<T, E: core::fmt::Debug>(r: Result<T, E>, _msg: &str) -> T {
    match r { Ok(t) => t, Err(_) => panic!("Result::expect on Err") }
}
pub(crate) fn unwrap_model<T, E: core::fmt::Debug>(r: Result<T, E>) -> T {
    match r { Ok(t) => t, Err(_) => panic!("Result::unwrap on Err") }
}

#[allow(dead_code, unused_imports, unused_variables, unused_mut, clippy::all)]
pub(crate) mod c19 {
    include!(concat!(env!("FUELLABS_FUEL_VM_VERIF_DIR"), "/incrate/vm/c19_balances.rs"));
}

/// Counterexample replay (lib/replay.py): generated concrete-playback tests.
#[cfg(verif_playback_checked)]
mod verif_playback {
    include!(env!("VERIF_PLAYBACK_FILE"));
}
