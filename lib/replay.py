"""Counterexample replay: turn CBMC's assignment into an ordinary #[test] against the real
build (Kani concrete playback), run it natively, and report only what reproduces.

The generated test feeds the solver's bytes to the *same* harness body through Kani's
playback shim; `#[kani::stub]` attributes are inert natively, so every stub that exists only
as a Kani workaround or hash stand-in is replaced by the real function in the replay.
"""
import json
import os
import re
import shutil
import subprocess
import time

import kanirun as K

REPLAYS = os.path.join(K.VERIF, 'replays')


# in-crate harness modules are private to the module that includes them, so each include anchor has
# its own playback module, selected by its own cfg
PLAYBACK_CFGS = [('::main::predicates::', 'verif_playback_predicates'), ('::executors::main::', 'verif_playback_main'), ('::checked_transaction::', 'verif_playback_checked'),
                 ('', 'verif_playback')]


def _playback_env(crate, path, harness=''):
    env = K.env_for(crate)
    env['VERIF_PLAYBACK_FILE'] = path
    cfg = next(c for k, c in PLAYBACK_CFGS if k in harness)
    env['RUSTFLAGS'] = (env.get('RUSTFLAGS', '') + ' --cfg ' + cfg).strip()
    return env


def replay(pid, r, rundir):
    """r: failed harness result.  Returns dict(reproduced, path, reason)."""
    crate = r['crate']
    c = K.CRATES[crate]
    name = r['harness']
    fn = name.split('::')[-1]
    outdir = os.path.join(REPLAYS, pid)
    os.makedirs(outdir, exist_ok=True)
    uniq = re.sub(r'[^A-Za-z0-9_]+', '_', name)
    path = os.path.join(outdir, uniq + '.rs')
    meta_path = os.path.join(outdir, uniq + '.json')
    failed = [dict(description=i['description'], file=i['file'], line=i['line'], function=i['function'],
                   property=i['property']) for i in (r.get('failed') or r.get('unsupported_failed') or [])]
    meta = dict(property=pid, harness=name, crate=crate, failed=failed, opts=r.get('opts'), time=time.ctime(),
                solver_inputs=[K.trace_inputs(i.get('trace'), limit=64)
                               for i in (r.get('failed') or r.get('unsupported_failed') or [])[:1]])
    tdir = os.path.join(K.WORK, 'target-' + crate)
    cmd = ['cargo', 'kani', '-Z', 'stubbing', '-Z', 'unstable-options', '-Z', 'concrete-playback',
           '--concrete-playback=print', '--no-assertion-reach-checks', '--target-dir', tdir,
           '--harness', name, '--exact']
    if crate != 'ext':
        cmd += ['-p', c['package']]
    if c.get('features'):
        cmd += ['--features', c['features']]
    o = r.get('opts', {})
    if o.get('unwind'):
        cmd += ['--default-unwind', str(o['unwind'])]
    extra = []
    if o.get('unwindset'):
        extra += ['--unwindset', ','.join(o['unwindset'])]
    extra += list(o.get('cbmc_extra', []))
    if extra:
        cmd += ['--cbmc-args'] + extra
    cwd = c['dir'] if crate == 'ext' else K.REPO
    K.log('[replay] generating concrete playback for', name)
    try:
        p = subprocess.run(cmd, cwd=cwd, env=K.env_for(crate), stdout=subprocess.PIPE, stderr=subprocess.STDOUT,
                           text=True, timeout=max(900, 3 * int(o.get('timeout', 300))))
        out = p.stdout
    except subprocess.TimeoutExpired:
        meta['reason'] = 'playback generation timed out'
        json.dump(meta, open(meta_path, 'w'), indent=1, default=str)
        return dict(reproduced=False, path=meta_path, reason=meta['reason'])
    open(os.path.join(rundir, fn + '.playback.log'), 'w').write(out)
    tests = re.findall(r'```\n(.*?)```', out, re.S)
    tests = [t for t in tests if 'concrete_playback_run' in t]
    if not tests:
        meta['reason'] = 'kani produced no concrete playback test'
        json.dump(meta, open(meta_path, 'w'), indent=1, default=str)
        return dict(reproduced=False, path=meta_path, reason=meta['reason'])
    # qualify the harness path so the test can live in the playback module
    modpath = 'crate::' + name
    body = []
    names = []
    seen = set()
    for t in tests:
        m0 = re.search(r'fn (kani_concrete_playback_\w+)', t)
        if m0 and m0.group(1) in seen:
            continue   # Kani prints one test per failed check; identical inputs give identical names
        if m0:
            seen.add(m0.group(1))
        t = re.sub(r'kani::concrete_playback_run\(\s*concrete_vals\s*,\s*%s\s*\)' % re.escape(fn),
                   'kani::concrete_playback_run(concrete_vals, %s)' % modpath, t)
        # Kani copies the (possibly multi-line) check description into a `///` comment without
        # re-commenting continuation lines: comment out every line before `#[test]`
        head, sep, tail = t.partition('#[test]')
        head = '\n'.join(l if (l.startswith('///') or not l.strip()) else '/// ' + l for l in head.split('\n'))
        t = head + sep + tail
        m = re.search(r'fn (kani_concrete_playback_\w+)', t)
        if m:
            names.append(m.group(1))
        body.append(t)
    header = ('// Counterexample replay for property %s, harness %s\n'
              '// Failed checks reported by CBMC:\n%s'
              '// Re-run: /verif/bin/check %s --replay %s\n' % (
                  pid, name, ''.join('//   %s (%s:%s)\n' % ((f['description'] or '').replace('\n', ' ')[:200], f['file'], f['line'])
                                     for f in failed), pid, path))
    open(path, 'w').write(header + '\n'.join(body))
    meta['tests'] = names
    meta['path'] = path
    json.dump(meta, open(meta_path, 'w'), indent=1, default=str)
    ok, why = run_native(crate, path, names, name)
    meta['reproduced'] = bool(ok)
    meta['native_result'] = why
    json.dump(meta, open(meta_path, 'w'), indent=1, default=str)
    return dict(reproduced=bool(ok), path=path, reason=why)


def run_native(crate, path, names, harness=''):
    """Run the playback tests natively (dev profile, then release).  Reproduced = the test
    fails (assertion / panic) in at least the dev profile, which is the one Kani models."""
    c = K.CRATES[crate]
    tdir = os.path.join(K.WORK, 'target-playback-' + crate)
    cwd = c['dir'] if crate == 'ext' else K.REPO
    verdicts = []
    for prof in ([],):  # `cargo kani playback` (0.68) has no --release; Kani models the dev profile
        cmd = ['cargo', 'kani', 'playback', '-Z', 'concrete-playback'] + prof
        if crate != 'ext':
            cmd += ['-p', c['package']]
        if c.get('features'):
            cmd += ['--features', c['features']]
        cmd += ['--', 'kani_concrete_playback']
        env = _playback_env(crate, path, harness)
        env['CARGO_TARGET_DIR'] = tdir
        try:
            p = subprocess.run(cmd, cwd=cwd, env=env, stdout=subprocess.PIPE, stderr=subprocess.STDOUT, text=True,
                               timeout=3600)
        except subprocess.TimeoutExpired:
            verdicts.append((prof, None, 'native replay timed out'))
            continue
        out = p.stdout
        open(path + ('.release' if prof else '.dev') + '.log', 'w').write(out[-20000:])
        tests = re.findall(r'^test \S*kani_concrete_playback\S* \.\.\. (ok|FAILED)', out, re.M)
        if not tests or len(tests) < len(names):
            verdicts.append((prof, None, 'native build/run failed (%d of %d playback tests ran): ' % (len(tests), len(names))
                             + ' | '.join(l[:200] for l in out.splitlines() if l.startswith('error'))[:600]))
            continue
        failed_n = tests.count('FAILED')
        msg = '%d of %d playback tests fail' % (failed_n, len(tests))
        m = re.search(r"panicked at ([^\n]*)\n([^\n]*)", out)
        if m:
            msg += ': ' + (m.group(1) + ' ' + m.group(2))[:300]
        verdicts.append((prof, failed_n > 0, msg))
    dev = verdicts[0]
    rel = verdicts[1] if len(verdicts) > 1 else (None, None, '')
    why = 'dev: %s %s; release: %s %s' % ('FAILS' if dev[1] else ('passes' if dev[1] is False else 'n/a'), dev[2],
                                          'FAILS' if rel[1] else ('passes' if rel[1] is False else 'n/a'), rel[2])
    if dev[1] is None:
        return None, why
    return bool(dev[1]) or bool(rel[1]), why


def rerun(pid, path):
    """./bin/check <id> --replay <path>: run a stored replay against the current /repo tree."""
    meta_path = re.sub(r'\.rs$', '.json', path)
    if not os.path.exists(meta_path) or not os.path.exists(path):
        print('no such replay', path)
        return 2
    meta = json.load(open(meta_path))
    ok, why = run_native(meta['crate'], path, meta.get('tests', []), meta.get('harness', ''))
    print(why)
    if ok:
        print('VIOLATION property=%s replay=%s' % (pid, path))
        return 1
    if ok is None:
        print('replay could not be run')
        return 2
    print('replay does not fail on the current tree')
    return 0
