"""Per-property configuration: which harness families decide it, tiers, bounds, stubs,
what is inside and outside the claim.  The harness *code* is under /verif/harness."""
import json
import os
import random
import re
import time

import kanirun as K

VERIF = K.VERIF

# ---------------------------------------------------------------------------------------
# Property table.  Each entry:
#   builds:      [{crate, filters}]          harness families to codegen
#   default:     default run options          (mem GB, timeout s per tier, unwind)
#   overrides:   [(regex, {opts})]            per-harness options; 'tier': 'thorough' removes it from quick
#   quick_max:   cap on quick-tier harnesses  (rotated by VERIF_SEED among 'rotate' families)
#   always:      regex of harnesses that are always in the quick tier
#   functions_encoded / bounds / assumptions / out_of_claim : copied to the evidence file
# ---------------------------------------------------------------------------------------
PROPS = {}


def prop(pid, **kw):
    kw.setdefault('default', {})
    kw.setdefault('overrides', [])
    kw.setdefault('functions_encoded', [])
    kw.setdefault('bounds', [])
    kw.setdefault('assumptions', [])
    kw.setdefault('out_of_claim', [])
    PROPS[pid] = kw


COMMON_ASSUMPTIONS = [
    'Kani 0.68 MIR->goto translation and CBMC 6.11 + cadical are sound (trusted base)',
    'kani default checks on: panics, arithmetic overflow (overflow-checks=on), slice/array bounds, division by zero, pointer validity',
    'CBMC allocator model: --no-malloc-may-fail (allocation failure is outside every claim)',
    'unwinding assertions on for every loop: a too-small bound is reported as inconclusive, never as success',
]

prop('C08',
     builds=[dict(crate='ext', filters=['c08_'])],
     default=dict(mem=7, timeout={'quick': 900, 'thorough': 1800}),
     min_harnesses={'quick': 16, 'thorough': 16},
     functions_encoded=['fuel_asm::Instruction::try_from(u32)', 'fuel_asm::Instruction::try_from([u8;4])',
                        'u32::from(Instruction)', '<[u8;4]>::from(Instruction)', 'Instruction::opcode', 'Instruction::reg_ids',
                        'op::X::new / unpack / from_raw_args / reserved_part_is_zero for all 127 opcodes',
                        'fuel_asm::pack::*', 'fuel_asm::unpack::*', 'Opcode::try_from(u8)',
                        'RegId/Imm06/Imm12/Imm18/Imm24::{new,new_checked}'],
     bounds=['none beyond the types: all 2^32 instruction words, all 2^8 opcode bytes, all in-range argument tuples (exhaustive)'],
     assumptions=['oracle = /verif/spec/opcodes.tsv (opcode byte -> layout), transcribed from the instruction set specification'],
     out_of_claim=['the 1:1 dispatch of opcode to handler in fuel-vm execute_instruction (syntactic macro; decided per handler in C21-C26)'],
     exhaustive=True,
     level_text='Bounded model checking with no bound beyond the machine types: every one of the 2^32 instruction words, 2^8 opcode bytes '
                'and every in-range argument tuple is decided by the SAT solver against a fixed specification table (exhaustive). '
                'Right level because the domain is finite and small enough to be covered completely by one solver query per obligation.',
     level_note='Trusted: Kani/CBMC/cadical; the opcode table spec/opcodes.tsv; the syntactic 1:1 execute_op! dispatch in fuel-vm is outside this check.')


TOY_NOTE = ('SHA-256 abstracted at the repository\'s wrapper functions by a loop-free stand-in (TOY) shared by implementation and '
            'reference; a pass compares what is hashed, in what order, under which prefix, and transfers to SHA-256 by parametricity '
            '(argument, not solver verdict); counterexamples are replayed natively with real SHA-256')

prop('C11',
     builds=[dict(crate='ext', filters=['c11_'])],
     default=dict(mem=3, timeout={'quick': 400, 'thorough': 900}, cbmc_extra=['--max-field-sensitivity-array-size', os.environ.get('VERIF_FS', '512')]),
     overrides=[(r'h_(pprpl1p|ppl2rp|prprp|pprpp|ppl2r|l0p|pl0|prpl1|ppl1|pl1p|ppl1p)::', dict(tier='rotate')),
                # load followed by push: CBMC cannot bound the peak vector rebuilt by load(), explores the
                # hashbrown scratch map in root_node and does not finish (900 s) -> outside the claim
                (r'h_(pl1p|ppl1p|pprpl1p)::c11_(root|prove_j0|prove_j1)$', dict(skip=True)),
                (r'h_p[3458]\w+::', dict(tier='thorough', mem=12, attempt=True, timeout=900))],
     rotate_pick=24,
     min_harnesses={'quick': 60, 'thorough': 100},
     functions_encoded=['fuel_merkle::binary::MerkleTree::{new,push,reset,load,root,leaves_count,prove}',
                        'fuel_merkle::binary::root_calculator::MerkleRootCalculator::{push_with_callback,clear,new_with_stack}',
                        'fuel_merkle::common::position::Position::*', 'fuel_merkle::common::path_iterator::*',
                        'fuel_merkle::binary::merkle_tree::{root_position,peak_positions}'],
     bounds=['history templates: 20 concrete words over {push, reset, load(k)} with at most 2 live leaves and at most 6 operations (every clause), plus 7 larger templates with up to 8 live leaves (count, root, proofs at 3 selected indices): P3RP2, P3L2P, P4RP3, P4L3, P8RP7, P8L7, P5RP5',
             'leaf data: 2 symbolic bytes each; final proof index j: any u64',
             'storage: array-backed table with 8 slots (ArrStorage), infallible'],
     assumptions=[TOY_NOTE],
     out_of_claim=['histories outside the listed templates; more than 8 live leaves',
                   'root/proof contents (not count/refusal) after a load() that is followed by a push: templates P L(1) P, P P L(1) P, P P R P L(1) P (no verdict in 900 s)',
                   'storage errors', 'in_memory::MerkleTree front end (StorageMap is a hash map, K5) - it forwards to the same reset'],
     level_text='Bounded model checking of concrete short history templates with symbolic leaf data and a symbolic proof index against a '
                'freshly built tree and the RFC 6962 tree hash. Right level for the reset/reload bookkeeping (counts, peaks, bounds checks), '
                'which is data-independent; weak for tree shapes above 2 leaves, stated as outside the claim.',
     level_note='Trusted: Kani/CBMC/cadical; TOY hash parametricity; bound of 2 live leaves.')

VM_STUBS_NOTE = ('fuel_vm::constraints::reg_key::split_registers replaced by a split_at_mut model (Kani 0.68 ICE on the slice pattern, K1); '
                 'Result::{expect,unwrap} replaced by non-formatting models (K2)')

prop('C21',
     builds=[dict(crate='vm', filters=['c21_'])],
     default=dict(mem=4, timeout={'quick': 600, 'thorough': 2400}),
     overrides=[(r'c21_(div|divi|mod|modi|exp_small|exp_closed|expi_small|mlog|mldv|mul_full)$', dict(tier='thorough', mem=8, attempt=True, timeout=1200)),
                (r'c21_(mul_b32|niop_reserved_register|niop_exp_\w+)$', dict(tier='thorough', mem=8)),
                (r'c21_niop_(add|sub|mul|sll|xnor)_u(16|32)$', dict(tier='rotate'))],
     rotate_pick=3,
     min_harnesses={'quick': 30, 'thorough': 50},
     functions_encoded=['<fuel_asm::op::X as Execute>::execute for each covered opcode (fuel-vm/src/interpreter/executors/opcodes_impl.rs)',
                        'Interpreter::gas_charge / gas::gas_charge', 'interpreter::alu::{alu_capture_overflow, alu_boolean_overflow, alu_error, alu_set, alu_clear}',
                        'interpreter::internal::{inc_pc, set_flag}', 'constraints::reg_key::WriteRegKey::new'],
     bounds=['all 64 register ids for destination and sources, all 64-bit register values, all flag values, all immediates, symbolic gas schedule'],
     assumptions=[VM_STUBS_NOTE, 'pre-state: $zero=0, $one=1, $cgas <= $ggas, $pc < VM_MAX_RAM'],
     out_of_claim=['decoder + dispatch (C08)'],
     level_text='One-step bounded model checking of the real per-opcode handlers from an arbitrary register state against an independently written wide-arithmetic specification.',
     level_note='Trusted: Kani/CBMC/cadical, split_registers model (checked natively).')

prop('C22',
     builds=[dict(crate='vm', filters=['c22_'])],
     default=dict(mem=4, timeout={'quick': 900, 'thorough': 2400}),
     min_harnesses={'quick': 24, 'thorough': 38},
     overrides=[(r'c22_wdcm_(ne|gt|lt|eq)_ind|c22_wdop_(sub_dir|or_ind|xor_dir|shr_dir|add_dir|and_ind|shl_ind|not)$|c22_invalid_imm_w[dq](ml|op)$', dict(tier='rotate'))],
     rotate_pick=5,
     functions_encoded=['<op::{WDCM,WDOP,WDML,WDDV,WQDV,WDAM,WQAM,WDMM,WQMM,WDMD,WQMD} as Execute>::execute',
                        'alu::wideint::{alu_wideint_cmp_u128, alu_wideint_op_u128, alu_wideint_div_*, alu_wideint_addmod_*, alu_wideint_mulmod_*, alu_wideint_muldiv_*, cmp_u128, op_overflowing_u128}',
                        'fuel_asm::wideint::{CompareArgs,MathArgs,MulArgs,DivArgs}::from_imm'],
     bounds=['128-bit compare and simple operations: all operand values (symbolic 64-byte stack / 16-byte heap), direct and indirect rhs, all register ids, flags, symbolic gas schedule',
             'multiply / divide / add-mod / mul-mod / mul-div (128 and 256 bit) and the 256-bit compare / simple ops: gas charge and operand-fetch error path only (operand pointers fixed to u64::MAX)',
             'invalid immediates of the immediate-carrying families: 2-4 concrete representatives per opcode'],
     assumptions=[VM_STUBS_NOTE, 'VMINV as in C24'],
     out_of_claim=['results of 256-bit compare/simple ops, of WDML/WQML products and of all division-like instructions incl. the zero-divisor rules (ethnum/primitive_types 256/512-bit arithmetic: no verdict within 40 min even on zero operands)'],
     level_text='One-step bounded model checking of the wide-integer handlers: full-width 128-bit compare/add/sub/logic/shift semantics incl. big-endian fetch, argument modes, destination ownership, $of/$err, and the zero-divisor contracts and gas charges of all division-like instructions.',
     level_note='Trusted: Kani/CBMC/cadical, split_registers model; ethnum/primitive_types arithmetic beyond the stated bounds.')

prop('C24',
     builds=[dict(crate='vm', filters=['c24_'])],
     default=dict(mem=3, timeout={'quick': 900, 'thorough': 2400}),
     min_harnesses={'quick': 13, 'thorough': 13},
     functions_encoded=['<op::{SB,SQW,SHW,SW,LB,LQW,LHW,LW,MCLI,MCPI} as Execute>::execute', 'Interpreter::{store_u8..u64, load_u8..u64, memclear, memcopy, ownership_registers}',
                        'MemoryInstance::{write, write_bytes, read_bytes, verify, memcopy}', 'OwnershipRegisters::{new, verify_ownership}'],
     bounds=['pre-state: VMINV with stack.len() = 64, heap.len() = 16, hp symbolic, all bytes symbolic, no call frame ($fp = 0, prev_hp = VM_MAX_RAM)',
             'all register ids/values, immediates, symbolic gas schedule; MCLI length <= 7, MCPI length 1..4',
             'memory effect decided with one symbolic probe address (= every address)'],
     assumptions=[VM_STUBS_NOTE, 'VMINV: $is<=$ssp<=$sp<=$hp<=VM_MAX_RAM, $hp == memory.hp, $sp <= stack.len(), $cgas<=$ggas, pc aligned and in range'],
     out_of_claim=['MCL/MCP/MEQ with register lengths, PSHL/PSHH/POPL/POPH, CFE/CFEI/CFS/CFSI, ALOC, hash/crypto/storage destinations, CALL/LDC frame and code writes (not yet built)',
                   'states with a call frame (prev_hp from the frame): ownership formula itself is decided for all prev_hp in C23 c23_ownership'],
     level_text='One-step bounded model checking of the memory store/load/clear/copy handlers from an arbitrary VMINV state with symbolic memory against the ownership set definition and a "nothing else changed" probe.',
     level_note='Trusted: Kani/CBMC/cadical, split_registers model.')

prop('C25',
     builds=[dict(crate='vm', filters=['c25_'])],
     default=dict(mem=3, timeout={'quick': 600, 'thorough': 1800}),
     min_harnesses={'quick': 13, 'thorough': 13},
     functions_encoded=['Interpreter::fetch_instruction', '<op::{JI,JMP,JNE,JNEI,JNZI,JMPF,JMPB,JNZF,JNZB,JNEF,JNEB,JAL} as Execute>::execute', 'interpreter::flow::JumpArgs::jump',
                        'Interpreter::jump', 'interpreter::internal::{inc_pc, write_user_register}', 'gas::gas_charge'],
     bounds=['all register ids and values, all immediates, symbolic gas schedule; target computed in 128-bit arithmetic on the specification side'],
     assumptions=[VM_STUBS_NOTE, 'pre-state: $cgas <= $ggas, $pc < VM_MAX_RAM', 'JAL with link register == target register is left unspecified (assumed away)'],
     out_of_claim=['every non-jump handler asserts pc+4 in its own property harness'],
     level_text='One-step bounded model checking of every jump handler from an arbitrary register state against the wide-arithmetic target formula.',
     level_note='Trusted: Kani/CBMC/cadical, split_registers model.')

prop('C26',
     builds=[dict(crate='vm', filters=['c26_'])],
     default=dict(mem=3, timeout={'quick': 600, 'thorough': 3600}),
     min_harnesses={'quick': 4, 'thorough': 4},
     functions_encoded=['interpreter::gas::{gas_charge, dependent_gas_charge, dependent_gas_charge_without_base}', 'Interpreter::{gas_charge, dependent_gas_charge}',
                        'fuel_tx::DependentCost::{resolve, resolve_without_base, base}',
                        'per-instruction schedule: every handler harness of C21/C25 runs with a fully symbolic gas table and asserts the charged entry'],
     bounds=['all u64 values of cgas<=ggas, cost, units, base, per-unit factors', 'LightOperation quotient: all u64 units for the concrete divisors {1,2,3,7,10,1000,2^32+1,2^64-1} (a symbolic 64-bit divisor does not finish)'],
     assumptions=[VM_STUBS_NOTE, 'units_per_gas >= 1 (documented contract)'],
     out_of_claim=['run_program gas_used accounting and call/return gas forwarding (C28/C34 harnesses, not yet built)', 'composition over whole programs (induction argument)'],
     level_text='Bounded model checking of the gas kernel at full 64-bit width; per-instruction charges are asserted inside the instruction-step harnesses of C21/C25 with a symbolic schedule.',
     level_note='Trusted: Kani/CBMC/cadical, split_registers model.')

FS = ['--max-field-sensitivity-array-size', '512']
# a Vec<Input> with three elements is ~600 bytes: above the default 512 the element variants stop being
# constants for CBMC and every match arm (incl. hash-set inserts, K5) is explored
FS2K = ['--max-field-sensitivity-array-size', '2048']
FS4K = ['--max-field-sensitivity-array-size', '4096']

prop('C09',
     builds=[dict(crate='ext', filters=['c09_'])],
     default=dict(mem=3, timeout={'quick': 600, 'thorough': 1800}, cbmc_extra=FS),
     min_harnesses={'quick': 5, 'thorough': 5},
     functions_encoded=['fuel_merkle::binary::root_calculator::MerkleRootCalculator::{new,push,push_with_callback,root,new_from_existing_leaves}',
                        'fuel_merkle::binary::MerkleTree::{new,push,root,root_node,leaves_count}', 'fuel_merkle::binary::node::Node::*', 'fuel_merkle::common::position::Position::*'],
     bounds=['leaf counts as listed per harness (n is a harness constant), 2 symbolic bytes per leaf'],
     assumptions=[TOY_NOTE],
     out_of_claim=['SHA-256 itself'],
     level_text='Bounded model checking of tree construction for concrete small leaf counts with symbolic leaf data against the RFC 6962 tree hash definition.',
     level_note='Trusted: Kani/CBMC/cadical; TOY hash parametricity.')

prop('C10',
     builds=[dict(crate='ext', filters=['c10_'])],
     default=dict(mem=8, timeout={'quick': 600, 'thorough': 3000}, cbmc_extra=FS, unwindset=['memcmp.0:34']),
     overrides=[(r'_l[45]$', dict(tier='thorough', mem=28, attempt=True, timeout=1500)),
                (r'c10_sound_c\d+_l3$|c10_reject_c(3_l3|9_l3)$', dict(tier='rotate')),
                (r'c10_complete_n4$', dict(tier='rotate')),
                (r'c10_complete_n[567]$', dict(tier='thorough', mem=16, attempt=True, timeout=1500))],
     rotate_pick=2,
     min_harnesses={'quick': 24, 'thorough': 40},
     functions_encoded=['fuel_merkle::binary::verify::{verify, path_length_from_key}', 'fuel_merkle::binary::MerkleTree::{push, root, prove, root_node}',
                        'fuel_merkle::common::position::Position::*', 'fuel_merkle::common::path_iterator::*', 'fuel_merkle::common::position_path::*'],
     bounds=['soundness: (count, proof length) grid listed by harness name (count up to 17, length up to 5); root, 2-byte data, all proof entries and index:u64 symbolic with no relation assumed',
             'completeness: trees of 1..7 leaves (2 symbolic bytes each), every index, plus refusal at n, n+1, u64::MAX'],
     assumptions=[TOY_NOTE],
     out_of_claim=['count > 17, trees with more than 7 leaves', 'SHA-256 itself'],
     level_text='Verifier decided equal to the RFC 6962 audit-path recomputation for all symbolic tuples on a grid of (count, length) shapes; prover decided complete on all trees up to 7 leaves.',
     level_note='Trusted: Kani/CBMC/cadical; TOY hash parametricity.')

prop('C23',
     builds=[dict(crate='vm', filters=['c23_'])],
     default=dict(mem=3, timeout={'quick': 600, 'thorough': 1800}),
     overrides=[(r'c23_grow_stack$', dict(mem=12)), (r'c23_reset$', dict(mem=8))],
     min_harnesses={'quick': 14, 'thorough': 17},
     functions_encoded=['MemoryInstance::{verify, read, write_noownerchecks, grow_stack, grow_heap_by, memcopy, reset, heap_offset}',
                        'OwnershipRegisters::{verify_ownership, has_ownership_range, has_ownership_stack, has_ownership_heap}', 'ToAddr for Word/usize'],
     bounds=['arbitrary representation state with stack.len() = 12, heap.len() in {0, 16, 256} (harness constants), hp symbolic, all contents symbolic incl. dirty heap below hp',
             'addresses, lengths, amounts: unrestricted u64 except: written/copied lengths <= 4..6, newly initialised bytes per step <= 24..40'],
     assumptions=['Result::{expect,unwrap} replaced by non-formatting models (K2)', 'representation invariant MINV assumed on the pre-state and re-asserted on the post-state'],
     out_of_claim=['rollback / collect_rollback_data (not yet built)', 'reallocation thresholds above 256 bytes', 'contents of multi-KiB regions'],
     level_text='One-step bounded model checking of each MemoryInstance method from an arbitrary representation state against the flat-array abstraction (single symbolic probe address = all 2^26 addresses).',
     level_note='Trusted: Kani/CBMC/cadical.')

prop('C02',
     builds=[dict(crate='ext', filters=['c02_'])],
     default=dict(mem=12, timeout={'quick': 900, 'thorough': 2400}),
     overrides=[(r'c02_(policies|witness|output)_fixed_point$|c02_transaction_size$', dict(tier='thorough', mem=30, attempt=True, timeout=1500))],
     min_harnesses={'quick': 8, 'thorough': 12},
     functions_encoded=['<T as fuel_types::canonical::Deserialize>::decode / from_bytes and <T as Serialize>::{size, size_static, size_dynamic, to_bytes} for T in {UtxoId, TxPointer, Policies, StorageSlot, Witness, Output, Input, Receipt, Transaction}',
                        'fuel_types::canonical: Vec<T>, [u8;N], integer and Input-for-&[u8] impls', 'fuel-derive generated decode_static/decode_dynamic'],
     bounds=['arbitrary byte strings of length <= N with N = 48 (UtxoId), 24 (TxPointer, Witness), 64 (Policies), 72 (StorageSlot), 112 (Output), 232 (Input), 200 (Receipt), 160 (Transaction)',
             'fixed point (re-encode, re-decode, equality) decided for UtxoId, TxPointer, StorageSlot in the quick tier (Policies, Witness, Output: thorough-tier attempts, 30 GB); size == consumed and no panic for eight types (Transaction: thorough-tier attempt, > 11 GB)'],
     assumptions=['Result::{expect,unwrap} replaced by non-formatting models (K2)'],
     out_of_claim=['buffers longer than N', 'allocation failure (VEC_DECODE_LIMIT-sized allocations are modelled as succeeding)'],
     level_text='Bounded model checking of the real decoders on an arbitrary buffer (symbolic content and length): absence of panics by Kani default checks, reported size equals bytes consumed, and the encode/decode fixed point.',
     level_note='Trusted: Kani/CBMC/cadical.')

prop('C14',
     builds=[dict(crate='ext', filters=['c14_'])],
     default=dict(mem=3, timeout={'quick': 900, 'thorough': 2400}, cbmc_extra=FS),
     overrides=[(r'c14_generate', dict(mem=24, tier='thorough', attempt=True, timeout=1200))],
     min_harnesses={'quick': 10, 'thorough': 11},
     functions_encoded=['fuel_merkle::sparse::proof::{InclusionProof::verify, ExclusionProof::verify, ExclusionLeaf::hash}', 'fuel_merkle::common::path::Path::get_instruction',
                        'fuel_merkle::common::msb::Msb::get_bit_at_index_from_msb'],
     bounds=['proof lengths 0..5 (harness constants); root, all 256 key bits, value / exclusion leaf and every proof entry symbolic with no relation assumed'],
     assumptions=[TOY_NOTE + ' (sparse wrappers calculate_leaf_hash / calculate_node_hash / common::sum; sum is the identity on 32-byte inputs)'],
     out_of_claim=['proof generation: generate_proof on a SINGLE-leaf tree (c14_generate_single_leaf, thorough-tier attempt) gives no verdict in 900 s / 3 GB even with field sensitivity 512 - sparse construction stays out of reach (C12/C13 not applicable)', 'proof lengths above 5, the > 256 guard'],
     level_text='Both sparse proof verifiers decided equal to the compact-tree recomputation for all symbolic (root, key, value/leaf, proof entries) at proof lengths 0..5, including the rule that an exclusion leaf claiming the queried key is rejected.',
     level_note='Trusted: Kani/CBMC/cadical; TOY hash parametricity.')

prop('C01',
     builds=[dict(crate='ext', filters=['c01_'])],
     default=dict(mem=6, timeout={'quick': 900, 'thorough': 3000}, unwindset=['memcmp.0:66']),
     overrides=[(r'c01_input_message_data_predicate', dict(tier='thorough', mem=16, attempt=True, timeout=1500))],
     min_harnesses={'quick': 24, 'thorough': 27},
     functions_encoded=['<T as fuel_types::canonical::Serialize>::{to_bytes, size, size_static, size_dynamic, encode_static, encode_dynamic} and <T as Deserialize>::{decode, decode_static, decode_dynamic} (fuel-derive generated) for UtxoId, TxPointer, StorageSlot, Witness, Policies (5 concrete masks incl. none/all), all 5 Output variants, all 7 Input variants',
                        'fuel_types::canonical impls for integers, [u8;N], Vec<u8>, Bytes; alignment_bytes / aligned_size'],
     bounds=['one harness per type/variant; every scalar and fixed array field symbolic; byte-vector lengths are harness constants drawn from {0,1,7,8,9} (the codec depends on len mod 8 and len == 0 only)'],
     assumptions=['Result::{expect,unwrap} replaced by non-formatting models (K2)', 'Input variants are distinguished on the wire by emptiness of predicate/data: predicate variants are built with a non-empty predicate (documented)'],
     out_of_claim=['whole transactions, receipts, upgrade purposes (transaction layer not built)', 'longer vectors (codec is length-uniform beyond one padding period: argument)'],
     level_text='Bounded model checking of the real encoders/decoders per element type with symbolic field contents: size identities, alignment, exact consumption and equality after the round trip.',
     level_note='Trusted: Kani/CBMC/cadical.')

prop('C18',
     builds=[dict(crate='ext', filters=['c18_'])],
     default=dict(mem=3, timeout={'quick': 900, 'thorough': 3000}, cbmc_extra=FS),
     overrides=[(r'c18_(max_fee_factor_\w+|min_fee_factor_(default|big)|refund_factor_default(_bounded)?|refund_monotone_\w+)$', dict(tier='thorough', attempt=True, timeout=1200))],
     min_harnesses={'quick': 8, 'thorough': 18},
     functions_encoded=['Upload/Blob/Create::{min_gas, metered_bytes_size, gas_used_by_metadata} (ordering only)', 'fuel_tx::Chargeable::{min_gas, max_gas, min_fee, max_fee, refund_fee} (default methods) on a real Script', 'fuel_tx::transaction::fee::{gas_to_fee, min_gas}',
                        'TransactionFee::checked_from_tx', 'Script::{metered_bytes_size, gas_used_by_metadata}', 'DependentCost::resolve'],
     bounds=['a Script without inputs, outputs, witnesses; tip / witness limit / max fee / gas price / used gas: all u64 values; gas_per_byte = default (4)',
             'full 64-bit width: min fee and refund formula at factor 1; value-range bounded (price < 2^20, used gas < 2^32; price < 2^12 for ordering/monotonicity): refund formula at factor 7, min<=max ordering; the full-width versions at factors {10^9, 2^40+12345} are thorough-tier attempts',
             'gas price factor: concrete values (a symbolic 64-bit divisor does not finish in CBMC); default gas cost table'],
     assumptions=['Result::{expect,unwrap} replaced by non-formatting models (K2)', 'price factor >= 1 (property precondition)'],
     out_of_claim=['refund monotonicity as a solver query (it compares two independent dividers, which CBMC does not finish even on 12/20-bit ranges: thorough-tier attempts only); it follows from the decided formula refund = limit - (ceil((min_gas+used)*price/factor)+tip) and monotonicity of ceiling division (argument)', 'transactions with signed inputs (witness de-duplication uses a HashSet, K5)', 'exact formulas for Create/Upload/Upgrade/Blob (only min<=max ordering with one 16-byte witness is decided for Upload/Blob/Create)', 'symbolic price factor'],
     level_text='Bounded model checking of the real fee functions against the ceiling-division formulas in multiplicative witness form, at full 64-bit width for four concrete price factors; ordering, monotonicity, bound by the fee limit and absence of panics.',
     level_note='Trusted: Kani/CBMC/cadical.')

prop('C36',
     builds=[dict(crate='vm', filters=['c36_'])],
     default=dict(mem=6, timeout={'quick': 900, 'thorough': 2400}, unwindset=['memcmp.0:66']),
     overrides=[(r'c36_state_', dict(mem=14))],
     min_harnesses={'quick': 12, 'thorough': 15},
     functions_encoded=['<MemoryStorage as StorageRead<T>>::{read_exact, read_zerofill, read_alloc}, <MemoryStorage as StorageSize<T>>::size_of_value, <MemoryStorage as StorageWrite<T>>::write_bytes for T in {ContractsRawCode, ContractsState, BlobData}'],
     bounds=['one stored value of n symbolic bytes ((n, m) in {(5,3),(0,2),(4,0)} for code, (5,3) for state, (8,1) for blobs; harness constants) under a concrete key, a second concrete key absent; buffer of m bytes (m in {0,1,2,3,4,8}) pre-filled with symbolic garbage; offset: any usize'],
     assumptions=['Result::{expect,unwrap} replaced by non-formatting models (K2)'],
     out_of_claim=['the code/blob loading instructions built on these reads (LDC, CCP, BLDD, CSIZ, BSIZ handlers: not yet built)', 'other storage back ends'],
     level_text='Bounded model checking of the MemoryStorage read functions against the read contract for an unrestricted offset (exact: succeeds iff offset+len within the value; zerofill: fails only beyond the value, zero-fills the rest; missing key; nothing outside the buffer semantics changes).',
     level_note='Trusted: Kani/CBMC/cadical.')

prop('C34',
     builds=[dict(crate='vm', filters=['c34_'])],
     default=dict(mem=8, timeout={'quick': 900, 'thorough': 2400}, cbmc_extra=FS),
     min_harnesses={'quick': 2, 'thorough': 2},
     functions_encoded=['<op::RET as Execute>::execute', 'Interpreter::ret', 'flow::RetCtx::{ret, return_from_context}', 'internal::{current_contract, set_frame_pointer, inc_pc}',
                        'Context::update_from_frame_pointer', 'ReceiptsCtx::push', 'gas::gas_charge'],
     bounds=['call depth 1 -> 0 (one frame whose 64 saved registers are symbolic) and depth 0; VMINV state with symbolic 64-byte stack / 16-byte heap; receipts list empty before the step',
             'gas part of VMINV for the frame: frame.$cgas + $cgas <= $ggas'],
     assumptions=[VM_STUBS_NOTE, 'binary Merkle leaf_sum/node_sum (receipts root) replaced by a stand-in: the receipts root value is not part of this property'],
     out_of_claim=['the CALL step (frame layout, code copy, gas forwarding): not built', 'RETD, deeper call stacks (depth enters only through frames.last())',
                   '"callee cannot modify the caller\'s stack" is the C24 ownership obligation with the callee\'s $ssp'],
     level_text='One-step bounded model checking of the return path: all registers restored from the saved frame except gas, $ret, $retl, $hp; pc = saved pc + 4; call depth decremented; memory untouched; unspent gas credited back.',
     level_note='Trusted: Kani/CBMC/cadical, split_registers model.')

prop('C29',
     builds=[dict(crate='vm', filters=['c29_', 'c21_add', 'c21_div_', 'c21_sll', 'c24_sw', 'c24_mcpi', 'c25_jmpb', 'c25_fetch', 'c25_jal', 'c22_wdop_add_ind', 'c34_ret_from_call', 'c26_gas_charge'])],
     default=dict(mem=4, timeout={'quick': 900, 'thorough': 2400}),
     min_harnesses={'quick': 10, 'thorough': 10},
     bug_new_is_violation=True,
     functions_encoded=['GasCosts::default() table', 'InterpreterError::{from_runtime, instruction_result, panic_reason}',
                        'a sample of the handler harnesses of C21, C22, C24, C25, C26, C34 (real handlers; Kani default checks = no host panic; exact outcome assertions = never RuntimeError::Bug; a reachable Bug::new is reported by Kani as an unsupported construct and mapped to a violation candidate)'],
     bounds=['per-step obligations from arbitrary VMINV states, bounds as in the sampled properties', 'default gas schedule: every fixed cost >= 1 and every dependent cost resolves to >= 1 for all unit counts'],
     assumptions=[VM_STUBS_NOTE],
     out_of_claim=['whole-transaction checking/execution (composition by induction over steps: every covered step ends in a program state, a panic or a storage error and strictly decreases $ggas)',
                   'handlers without a step harness (listed as uncovered in C22/C24/C27/C30/C33)'],
     level_text='Step-level bounded model checking: no host panic and no internal-bug result in one step of the covered handlers from any VMINV state, total error classification, undefined opcodes refused, and strict gas decrease under the default schedule (termination argument).',
     level_note='Trusted: Kani/CBMC/cadical, split_registers model; induction over steps is an argument, not a solver query.')

prop('C28',
     builds=[dict(crate='ext', filters=['c28_'])],
     default=dict(mem=8, timeout={'quick': 900, 'thorough': 2400}, cbmc_extra=FS),
     min_harnesses={'quick': 5, 'thorough': 5},
     functions_encoded=['fuel_vm::interpreter::ReceiptsCtx::{push, root, len}', '<Receipt as Serialize>::to_bytes', 'MerkleRootCalculator::{push, root}'],
     bounds=['receipt lists of length 0..4 with kinds drawn from {Return, Revert, Log, Transfer, ScriptResult} (harness constants), all fields symbolic'],
     assumptions=[TOY_NOTE],
     out_of_claim=['run_program: exactly one script-result receipt, panic receipt iff panic, success iff top-level return (not built)',
                   'the 65,535 receipt limit (needs 65,533 materialised receipts)', 'revert/panic post-conditions on outputs and MemoryClient storage rollback (not built)',
                   'receipts with data payloads (ReturnData, LogData, MessageOut)'],
     level_text='Bounded model checking of the receipts-root clause only: after pushing 0..4 receipts with symbolic fields the committed root equals the RFC 6962 tree hash of their canonical encodings and the list grew by exactly the pushed receipts. The other clauses of C28 are stated as outside the claim.',
     level_note='Trusted: Kani/CBMC/cadical; TOY hash parametricity. Partial claim.')

prop('C15',
     builds=[dict(crate='ext', filters=['c15_'])],
     default=dict(mem=8, timeout={'quick': 900, 'thorough': 2400}, cbmc_extra=FS),
     min_harnesses={'quick': 7, 'thorough': 7},
     functions_encoded=['fuel_tx::Contract::root_from_code', 'fuel_merkle::binary::in_memory::MerkleTree::{new, push, root}'],
     bounds=['code of 0, 1, 7, 8, 9, 12, 16 symbolic bytes (one chunk; the padding rule depends on len mod 8)'],
     assumptions=[TOY_NOTE + '; the TOY leaf hash samples the length and 4 bytes, so the padded length and the sampled bytes are what is compared'],
     out_of_claim=['code of two or more 16 KiB chunks', 'initial state root (sparse tree construction, not decidable here)', 'contract id and predicate owner formulas (fuel_crypto::Hasher streaming SHA-256 state cannot be abstracted at a wrapper)', 'the VM deployment / CROO / predicate-owner uses'],
     level_text='Bounded model checking of the code-root clause for single-chunk code at every padding class. The other clauses of C15 are outside the claim (partial).',
     level_note='Trusted: Kani/CBMC/cadical; TOY hash parametricity. Partial claim.')

prop('C35',
     builds=[dict(crate='vm', filters=['c35_'])],
     default=dict(mem=6, timeout={'quick': 900, 'thorough': 2400}, cbmc_extra=FS, unwindset=['memcmp.0:70']),
     min_harnesses={'quick': 16, 'thorough': 16},
     functions_encoded=['Interpreter::upload_bytecode_subsection', 'Interpreter::upload_inner', 'Interpreter::blob_inner', 'Interpreter::upgrade_inner (both purposes)', 'Interpreter::deploy_inner', 'InterpreterStorage::{deploy_contract_with_id, storage_contract_exists, contains_state_transition_bytecode_root} (provided methods)', 'Interpreter::finalize_outputs',
                        '<MemoryStorage as StorageInspect/StorageMutate<UploadedBytecodes>>::{get, insert/replace}'],
     bounds=['upload_bytecode_subsection: subsection index, total and already-uploaded count: all u16 values (index < total, the Checked<Upload> rule); prior bytecode 0..4 and witness 0..3 symbolic bytes (harness constants)',
             'upload_inner: SlotStorage whose UploadedBytecodes table holds, under the (concrete) transaction root, nothing / an uncompleted upload (2 symbolic bytes, symbolic count) / a completed one, plus an unrelated second root that must stay untouched; no inputs, outputs or fee (gas price 0)',
             'blob_inner: payload of 0, 2 or 3 symbolic bytes, blob id present or absent, an unrelated blob present', 'upgrade_inner: current version any u32 (incl. u32::MAX), target version taken or free; state transition: bytecode absent / uncompleted / completed',
             'deploy_inner: contract id (from the stubbed metadata) already deployed or not, code of 0..3 symbolic bytes, zero or one storage slot with a symbolic value, an unrelated contract present'],
     assumptions=[VM_STUBS_NOTE.split(';')[-1].strip(), 'subsection_index < subsections_number and a present witness (guaranteed by Checked<Upload>)', 'storage back end: SlotStorage (association lists) instead of MemoryStorage (DESIGN 13.3)',
                  'Bug::new replaced by the location-free constructor (hook); fuel_crypto::Hasher replaced by constant stand-ins (ids are not the subject); UpgradeMetadata::compute and CreateMetadata::compute replaced by models (C06 / C15 subjects)'],
     out_of_claim=['contract id / root formulas (C15) and the postcard payload of consensus-parameter upgrades (C06)',
                   'sequences of transactions: composition by induction over the stored (bytes, count) pair (argument)', 'Checked<Upload> Merkle-proof validation (C10 covers verify)'],
     level_text='One-step bounded model checking of the real upload / blob / upgrade / deploy step functions from an arbitrary stored state: a subsection is accepted iff next in order, the stored value is prior bytes followed by the witness, completed exactly at the last part and never extended; a blob id or contract id is created once with exactly its data (code and slots) and a second creation is refused leaving the tables unchanged; upgrades install under current version + 1 (saturating), fail if taken or, for state transitions, if the bytecode is not completely uploaded; unrelated entries never change.',
     level_note='Trusted: Kani/CBMC/cadical; SlotStorage back end. Step functions only (sequences by induction over the stored state).')

prop('C03',
     builds=[dict(crate='ext', filters=['c03_'])],
     default=dict(mem=8, timeout={'quick': 900, 'thorough': 2400}, cbmc_extra=FS, unwindset=['memcmp.0:600']),
     overrides=[(r'c03_tx_script_(coin_change|contract_variable)$', dict(mem=16, tier='thorough', attempt=True, timeout=1800)),
                # fragile: passes only with --max-field-sensitivity-array-size 512; without it (and under seed C03-m1) CBMC fails
                # Kani's __rust_dealloc preconditions while the old metadata is dropped, which does not reproduce natively
                (r'c03_tx_script_reprecompute$', dict(skip=True))],
     min_harnesses={'quick': 15, 'thorough': 17},
     functions_encoded=['fuel_tx::Input::prepare_sign and the per-variant Coin/Contract/Message::prepare_sign', 'fuel_tx::Output::prepare_sign',
                        '<ChargeableTransaction as PrepareSign>::prepare_sign, ScriptBody::prepare_sign', '<ChargeableTransaction as UniqueIdentifier>::{id, cached_id}',
                        'fuel_tx::transaction::compute_transaction_id', '<Script as Cacheable>::precompute, CommonMetadata::compute', '<Script as Serialize>::to_bytes'],
     bounds=['element layer: every one of the 7 input and 5 output variants, all scalar / fixed-array fields symbolic, byte vectors of 1..3 symbolic bytes',
             'transaction layer: Script transactions with (inputs, outputs, witnesses) in {(0,0,0), (0,0,1)}, 4-byte script, 0..1-byte script data, tip and max-fee policies, all scalars symbolic, all chain ids; fresh id and cached id (a re-precompute-after-edit harness exists but is not run: it sits on a Kani deallocation-model artifact, DESIGN 13.6); shapes (1,1,1) and (1,2,0) are thorough-tier attempts that gave no verdict in 900 s (their inputs/outputs go through the element functions decided above)'],
     assumptions=['Result::{expect,unwrap} replaced by non-formatting models (K2)',
                  'fuel_crypto::Hasher::{input, finalize} replaced by a logging stand-in: the obligation is on the hashed PRE-IMAGE (= big-endian chain id followed by the canonical bytes of the transaction with malleable fields defaulted and witnesses removed, built by the harness through the public constructors); SHA-256 itself and collision resistance are outside the claim; counterexamples are replayed natively with real SHA-256'],
     out_of_claim=['Create / Upload / Upgrade / Blob / Mint at the transaction layer (their inputs/outputs go through the same element functions decided here; body prepare_sign of those kinds is the empty function)', 'larger shapes', 'SHA-256, collision resistance'],
     level_text='Bounded model checking of the real prepare_sign / id / precompute code: per input and output variant the prepared value equals the value with exactly the malleable fields defaulted (so malleable fields never and all other fields always reach the id pre-image), and for Script transactions the bytes fed to the hasher are exactly chain id ‖ canonical bytes of that prepared transaction without witnesses, cached id = fresh id.',
     level_note='Trusted: Kani/CBMC/cadical; logging Hasher stand-in (pre-image level).')

prop('C04',
     builds=[dict(crate='ext', filters=['c04_'])],
     default=dict(mem=8, timeout={'quick': 900, 'thorough': 2400}, cbmc_extra=FS, unwindset=['memcmp.0:400']),
     overrides=[(r'c04_tx_script_(coin|pred|contract)', dict(mem=16, tier='thorough', attempt=True, timeout=1800)),
                (r'c04_el_(message_data_predicate|msgdata_predicate_offsets)', dict(mem=12, timeout=1800, tier='thorough', attempt=True))],
     min_harnesses={'quick': 16, 'thorough': 23},
     functions_encoded=['fuel_tx::input::InputRepr::{*_offset, from_input}', 'fuel_tx::output::OutputRepr::{*_offset, from_output}', 'Input::{predicate_offset, predicate_data_offset, repr}',
                        'field::{ScriptGasLimit, ReceiptsRoot, Script, ScriptData, Policies, Inputs, Outputs, Witnesses}::*_offset / *_offset_at / inputs_predicate_offset_at for Script (chargeable_transaction.rs mod field, script.rs)',
                        'CommonMetadata::compute / ScriptMetadata (cached offsets)', '<T as Serialize>::to_bytes for Input, Output, Witness, Policies, Script'],
     bounds=['element layer: 6 of the 7 input variants (predicate / data lengths from {0,1,2,3,7,8,9}) and 5 output variants, all fields symbolic; the MessageDataPredicate variant (three byte vectors) gives no verdict in 900-1800 s and is a thorough-tier attempt',
             'transaction layer: Script with (inputs, outputs, witnesses) in {(0,0,0), (0,0,1), (0,0,2)}, script lengths 4 and 7, data lengths 0 and 9, tip + max-fee policies; with and without precompute; index arguments beyond the vectors symbolic; shapes with inputs/outputs ((1,1,1), (1,1,0), (2,1,0)) are thorough-tier attempts that gave no verdict in 900 s'],
     assumptions=['Result::{expect,unwrap} replaced by non-formatting models (K2)'],
     out_of_claim=['Create / Upload / Upgrade / Blob / Mint body offsets (salt, storage slots, proof set, ...)', 'larger shapes'],
     level_text='Bounded model checking of the offset tables and accessors against the real encoder: every reported offset locates exactly the canonical bytes of the field, absent fields report None, cached (precomputed) offsets equal uncached ones.',
     level_note='Trusted: Kani/CBMC/cadical. Partial claim (Script kind + all input/output variants).')

prop('C07',
     builds=[dict(crate='ext', filters=['c07_'])],
     default=dict(mem=4, timeout={'quick': 600, 'thorough': 1200}, unwindset=['memcmp.0:70']),
     min_harnesses={'quick': 10, 'thorough': 10},
     functions_encoded=['fuel_compression::RegistryKey::{next, as_u32, try_from(u32), try_from(&[u8]), as_ref}', 'derive(Compress, Decompress) output for fuel_tx::Output (5 variants, compress(skip) fields) and fuel_tx::UpgradePurpose', 'hand-written CompressibleBy/DecompressibleBy for Policies and PoliciesBits', 'fuel_compression identity impls for integers and Bytes32'],
     bounds=['all 2^32 raw values / all 2^24 keys (exhaustive for the key kernel)', 'round trip: all 64 policy masks with symbolic values; both upgrade purposes; the five output variants; all fields symbolic; array-backed registry context with 4 slots'],
     assumptions=['Result::{expect,unwrap} replaced by non-formatting models (K2)'],
     out_of_claim=['inputs (their decompression restores owner/amount/asset from a coin/message lookup that only exists in test code), whole transactions and the id-preservation clause for them',
                   'sequences sharing one registry with eviction'],
     level_text='Bounded model checking of the registry-key kernel (next() total on writable keys, increments, wraps MAX_WRITABLE to ZERO, never yields the reserved key; conversions mutually inverse) and of the compress/decompress round trip for policies, upgrade purposes and outputs: every non-skipped field comes back unchanged, skipped (malleable) fields come back as defaults.',
     level_note='Trusted: Kani/CBMC/cadical. Partial claim (key kernel + element round trips; inputs and whole transactions out).')

prop('C27',
     builds=[dict(crate='vm', filters=['c27_', 'c30_tr_internal_unlisted'])],
     default=dict(mem=8, timeout={'quick': 900, 'thorough': 2400}, cbmc_extra=FS, unwindset=['memcmp.0:70']),
     min_harnesses={'quick': 9, 'thorough': 9},
     functions_encoded=['<op::MINT as Execute>::execute, MintCtx::mint', '<op::BURN as Execute>::execute, BurnCtx::burn', '<ContractId as ContractIdExt>::asset_id', '<Script as ExecutableTransaction>::{update_outputs, replace_variable_output}', 'interpreter::contract::{balance, balance_increase, balance_decrease}', '<op::TR as Execute>::execute, Interpreter::transfer, TransferCtx::transfer (contract context)',
                        'internal::{internal_contract, current_contract}', 'Normal::check_contract_in_inputs', 'ReceiptsCtx::push', 'gas::gas_charge',
                        '<MemoryStorage as ContractsAssetsStorage>::{contract_asset_id_balance, _insert, _replace}'],
     bounds=['real MemoryStorage with optional balances for (source, asset) and (destination, asset) plus two bystander entries; contract and asset ids concrete and pairwise distinct, one instance with source == destination',
             'amount, balances, presence of each entry, membership of the destination in the input set, $cgas/$ggas and every non-pointer register, and the whole gas schedule: symbolic (all u64 values)',
             'TR executed in a contract (Call) context with the call frame id at $fp; operand pointers concrete',
             'MINT / BURN: contract or script context (symbolic), symbolic 32-byte sub id, symbolic amount, balance entry present or absent'],
     assumptions=[VM_STUBS_NOTE, 'binary Merkle leaf_sum/node_sum (receipts root) replaced by a stand-in: the receipts root value is not part of this property', 'register part of VMINV',
                  'MINT / BURN: fuel_crypto::Hasher::{chain, finalize} replaced by a logging stand-in; the asset id is compared with the same digest of (contract id, sub id) computed by the specification'],
     out_of_claim=['every path through RuntimeBalances (hashbrown map, K5): transfers from a script context, external CALL coin forwarding, the in-memory balance table',
                   'TRO / SMO handlers and CALL coin forwarding (not built; the variable-output slot rule used by TRO and the post-execution change/refund/revert rule are decided on the transaction methods)', 'the global ledger equation over whole programs (sum of the local equations: argument)'],
     level_text='One-step bounded model checking of the contract-balance kernel and of the TR, MINT and BURN instructions in a contract context against the local conservation equation: the source loses exactly what the destination gains, minting / burning moves the balance of H(contract, sub id) by exactly the amount, deficits and overflows panic instead of wrapping, each receipt carries the moved amount, bystander balances never change; post-execution change / refund / revert rule and the fill-once rule of variable outputs.',
     level_note='Trusted: Kani/CBMC/cadical, split_registers model. Partial claim (contract-to-contract transfers).')

prop('C30',
     builds=[dict(crate='vm', filters=['c30_', 'c27_tr_internal'])],
     overrides=[(r'c27_tr_internal_self$', dict(skip=True))],
     default=dict(mem=8, timeout={'quick': 900, 'thorough': 2400}, cbmc_extra=FS, unwindset=['memcmp.0:70']),
     min_harnesses={'quick': 13, 'thorough': 13},
     functions_encoded=['<Normal as Verifier>::check_contract_in_inputs', '<op::BAL as Execute>::execute, ContractBalanceCtx::contract_balance', '<op::CSIZ as Execute>::execute, Interpreter::code_size, CodeSizeCtx::code_size, contract::contract_size',
                        '<op::CROO as Execute>::execute, Interpreter::code_root, CodeRootCtx::code_root (refusal path)', '<op::CCP as Execute>::execute, Interpreter::code_copy, CodeCopyCtx::code_copy (refusal path)', '<op::LDC as Execute>::execute (mode 0), Interpreter::load_contract_code, LoadContractCodeCtx::load_contract_code (refusal path)', '<op::TR as Execute>::execute (input check before any balance access, contract and script context)',
                        'PredicateStorage<D>: every StorageInspect/Mutate/Size/Read/Write method of ContractsAssets, ContractsRawCode, ContractsState and contract_state_remove_range'],
     bounds=['input set {two concrete ids} / empty, queried id symbolic among two listed and two unlisted ones', 'BAL / TR / CSIZ steps with the target listed or unlisted (harness constant), balances / code presence / amounts / gas schedule symbolic',
             'CROO / CCP / LDC(mode 0) steps towards an existing but unlisted contract: destination address, code offset, length, every non-pointer register and the gas schedule symbolic; 128 bytes of initialised stack, empty heap',
             'PredicateStorage: symbolic keys, offsets and values'],
     assumptions=[VM_STUBS_NOTE, 'register part of VMINV'],
     out_of_claim=['CALL and the storage instructions (not built); the served (listed) paths of CROO, CCP and LDC', 'the rebuild of the input set at initialisation and the active-contract invariant over whole runs (argument)'],
     level_text='Bounded model checking of the input-membership check and of the instructions using it (BAL, TR, CSIZ served and refused; CROO, CCP, LDC refused): an unlisted contract is refused with ContractNotInInputs before any balance or code is read or written (storage, registers and memory compared before/after), listed ones are served; the predicate storage refuses every contract-table operation.',
     level_note='Trusted: Kani/CBMC/cadical, split_registers model. Partial claim (BAL, TR, CSIZ, CROO/CCP/LDC refusal, verifier, predicate storage).')

prop('C32',
     builds=[dict(crate='vm', filters=['c32_']), dict(crate='vm', filters=['c32x_'], tier='thorough')],
     default=dict(mem=6, timeout={'quick': 900, 'thorough': 2400}),
     min_harnesses={'quick': 2, 'thorough': 5},
     functions_encoded=['state::Debugger::{eval_state, set_single_stepping, set_last_state, last_state, is_active}', 'impl PartialEq<Breakpoint> for ProgramState',
                        'thorough tier: Interpreter::instruction_per_inner (debugger gate) + eval_debugger_state for NOOP, ADD, JI'],
     bounds=['debugger in single-stepping mode or without breakpoints; last reported state: every ProgramState variant with symbolic payload; location (contract id option, pc): all values',
             'gate (thorough): arbitrary register state, symbolic gas schedule, the three concrete instruction words NOOP / ADD r16 r17 r18 / JI 3'],
     assumptions=[VM_STUBS_NOTE, 'curve back ends stubbed in the gate harnesses (K3; never executed: the opcode is a harness constant)'],
     out_of_claim=['breakpoint SETS: Debugger.breakpoints is a hashbrown map (K5); single-stepping goes through the same last-state suppression', 'whole-run equivalence of debugged and plain runs (argument from the two step facts)',
                   'Interpreter::resume re-entering run_program'],
     level_text='Bounded model checking of the debugger kernel: a location is reported unless the last reported state is a break at exactly that location, the last state is consumed, never reported without breakpoints; (thorough) a reported event executes nothing and a suppressed one executes the instruction exactly as without a debugger.',
     level_note='Trusted: Kani/CBMC/cadical. Partial claim (single-stepping kernel; breakpoint sets out).')

prop('C17',
     builds=[dict(crate='vm', filters=['c17_'])],
     default=dict(mem=16, timeout={'quick': 1200, 'thorough': 2400}),
     min_harnesses={'quick': 3, 'thorough': 3},
     functions_encoded=['<op::ECK1 as Execute>::execute, Interpreter::secp256k1_recover, crypto::secp256k1_recover', '<op::ECR1 as Execute>::execute, Interpreter::secp256r1_recover, crypto::secp256r1_recover', '<op::ED19 as Execute>::execute, Interpreter::ed25519_verify, crypto::ed25519_verify',
                        'MemoryInstance::{read_bytes, read, write_bytes}, OwnershipRegisters::verify_ownership', 'set_err / clear_err / inc_pc'],
     bounds=['VMINV state with a symbolic 200-byte stack, no heap; all operand pointers / lengths: any u64; symbolic gas schedule (ED19 per-unit price 0)',
             'the curve library call is replaced by a model returning an ARBITRARY result chosen by the solver (key bytes symbolic)'],
     assumptions=[VM_STUBS_NOTE, 'fuel_crypto::Signature::recover, fuel_crypto::secp256r1::recover and fuel_crypto::ed25519::verify replaced by arbitrary-result models that record what they were asked (DESIGN §3.3)'],
     out_of_claim=['sign/recover/verify consistency and strict-verification equivalence: 256-bit curve arithmetic (libsecp256k1 FFI, k256/p256/ed25519-dalek) is out of reach for bit-blasting',                    'signature_format encode/decode'],
     level_text='One-step bounded model checking of the VM signature instructions for ANY answer of the curve library: the library is asked about exactly the bytes in memory, success writes the key and clears $err, failure zeroes the destination and sets $err, ownership and bounds are enforced, nothing else changes.',
     level_note='Trusted: Kani/CBMC/cadical. Partial claim: VM glue only, curve arithmetic not applicable.')

prop('C31', wip=True,
     builds=[dict(crate='vm', filters=['c31_'])],
     default=dict(mem=12, timeout={'quick': 1200, 'thorough': 2400}, cbmc_extra=FS4K, unwindset=['memcmp.0:70']),
     min_harnesses={'quick': 3, 'thorough': 3},
     functions_encoded=['Interpreter::init_predicate, Interpreter::init_inner', 'MemoryInstance::{reset, grow_stack, write_noownerchecks}', 'RuntimeBalances::to_vm (empty balances)', 'RuntimePredicate::from_tx',
                        '<Script as PrepareSign>::prepare_sign, to_bytes, id'],
     bounds=['previous state: all 64 registers symbolic, memory with 24 symbolic stack bytes and a 16-byte dirty heap at a symbolic hp, one stale call frame with symbolic registers, stale input-contract set / output index map / owner pointer / panic context',
             'transaction: Script with 1..3 inputs (coin predicate; + contract input; + two signed coins with owners from a 2-element palette), 4-byte script, all scalars symbolic; max_inputs = 3'],
     assumptions=[VM_STUBS_NOTE, 'fuel_crypto::Hasher replaced by a constant stand-in (the id value is not the subject)', 'Bug::new replaced by the location-free constructor (hook)'],
     out_of_claim=['whole-run determinism (argument: given equal initial states Interpreter::run is a function of state and storage)', 'init_script with non-empty balances (RuntimeBalances is a hashbrown map, K5)', 'VmMemoryPool', 'storage_slot_cache contents (cleared by the same code path; not constructed dirty here)'],
     level_text='Bounded model checking of the real initialisation on a dirty interpreter versus a fresh one: registers, the whole flat memory (incl. accessibility), frames, receipts, input-contract set, output index map and owner pointer agree; the transaction bytes sit at tx_offset; stale input contracts are dropped.',
     level_note='Trusted: Kani/CBMC/cadical. Partial claim (initialisation mechanism).')

prop('C19', wip=True,
     builds=[dict(crate='vm', filters=['c19_'])],
     default=dict(mem=8, timeout={'quick': 900, 'thorough': 2400}, cbmc_extra=FS2K, unwindset=['memcmp.0:34']),
     min_harnesses={'quick': 3, 'thorough': 3},
     functions_encoded=['fuel_vm::checked_transaction::balances::{initial_free_balances, add_up_input_balances, deduct_max_fee_from_base_asset, reduce_free_balances_by_coin_outputs}'],
     bounds=['Script transactions with 3..6 inputs covering all 7 input variants and up to 5 outputs covering coin / change / variable / contract outputs; asset ids are harness constants (base, one other, one asset without inputs); every amount, the fee limit and its presence: all u64 values'],
     assumptions=['Result::{expect,unwrap} replaced by non-formatting models (K2)'],
     out_of_claim=['the accept/reject half of C19 (check_common_part, per-input / per-output / per-kind rules): the ~45-rule reference was not built; check_common_part also reaches itertools hash sets (K5)',
                   'IntoChecked::into_checked_basic storing the balances (straight-line use of the decided function)', 'more than two assets'],
     level_text='Bounded model checking of the real free-balance computation against an exact wide-integer reference: per asset, spendable inputs (coins per asset, message coins as base asset, data messages as retryable) minus the fee limit minus coin outputs; overflowing sums, a missing or excessive fee limit, excessive coin outputs and coin outputs of assets without inputs are rejected with the specified error.',
     level_note='Trusted: Kani/CBMC/cadical. Partial claim (balance half of C19).')

prop('C20', wip=True,
     builds=[dict(crate='vm', filters=['c20_'])],
     default=dict(mem=8, timeout={'quick': 900, 'thorough': 2400}, cbmc_extra=FS2K),
     min_harnesses={'quick': 2, 'thorough': 2},
     functions_encoded=['interpreter::executors::main::predicates::finalize_check_predicate', 'PredicatesChecked::gas_used', '<Script as Chargeable>::max_gas (free gas schedule)'],
     bounds=['a Script with two predicate inputs (coin and message-data predicates); per-predicate outcomes ARBITRARY (passed with any gas, evaluated to false, gas mismatch, invalid owner); both arrival orders; max_gas_per_tx: any u64'],
     assumptions=['Result::{expect,unwrap} replaced by non-formatting models (K2)', 'the per-predicate outcome is an arbitrary value: the predicate run itself (whole-VM execution) is outside the claim'],
     out_of_claim=['signature recovery (curve arithmetic, see C17) and Input::check_signature with its HashMap recovery cache (K5)', 'check_predicate: owner check and the run-result mapping (verify_predicate is a whole-VM run)', 'arbitrary predicate programs; determinism of the run itself (C31)'],
     level_text='Bounded model checking of the aggregation step of predicate checking for arbitrary per-predicate outcomes: verdict and total gas are the same for every arrival order of the results (sequential = parallel), the total is the checked sum, any failed predicate fails the transaction, and estimation writes back exactly the gas each predicate used.',
     level_note='Trusted: Kani/CBMC/cadical. Partial claim (aggregation step only).')

prop('C05',
     builds=[dict(crate='vm', filters=['c05_'])],
     default=dict(mem=12, timeout={'quick': 1200, 'thorough': 2400}, cbmc_extra=FS2K, unwindset=['memcmp.0:200']),
     # the GTF harnesses never produced a verdict (no verdict in 1200 s), so their hand-written selector tables were never
     # validated against the unchanged tree: they are not run in any tier (a wrong table would be a false alarm)
     overrides=[(r'c05_gtf_(general|inputs|create)$', dict(skip=True))],
     min_harnesses={'quick': 5, 'thorough': 5},
     functions_encoded=['<op::GM as Execute>::execute, Interpreter::metadata, interpreter::metadata::metadata', 'Interpreter::get_transaction_field, GTFInput::get_transaction_field',
                        'GMArgs::try_from, GTFArgs::try_from', 'init_inner placing the transaction bytes at tx_offset and computing the owner pointer: harnesses c31_init_* (run with C31)'],
     bounds=['GM: all 2^18 immediates, all destination registers, Script / Call / predicate contexts, with and without a call frame (symbolic saved $fp), symbolic chain id / gas price / tx offset / owner pointer',
             'GTF: harnesses exist (harness/incrate/vm/c05_meta.rs) but are not run in any tier: no verdict in 1200 s, so their selector tables were never validated: a Create transaction with one coin-predicate input, one contract-created output, one storage slot and one witness (kind, create, pointer selectors, selectors of other kinds); a Script with one coin-predicate, one contract and one message-data-predicate input, a coin and a contract output, one witness: 90 selector/index combinations incl. wrong-family, absent-index, other-kind and all undefined selectors'],
     assumptions=[VM_STUBS_NOTE, 'selector numbers are the specification literals, not the GMArgs/GTFArgs enums'],
     out_of_claim=['GTF on Upload / Upgrade / Blob transactions (kind-specific selectors); Create is covered for the kind / create / script-foreign selectors only', 'other input/output variants and shapes', 'gas charge of GTF (symbolic-schedule charge is asserted for GM)'],
     level_text='Bounded model checking of the GM instruction against a specification table for all 2^18 immediates, all destination registers and every context (script, call with and without a caller frame, predicate verification and estimation): configured chain id, base-asset pointer, transaction start, gas price, owner pointer, caller and predicate index are returned or the specified panic is raised; GTF is not decided.',
     level_note='Trusted: Kani/CBMC/cadical, split_registers model. Partial claim (GM only; GTF and the placement of the transaction in memory are not decided).')

prop('C06',
     builds=[dict(crate='ext', filters=['c06_'])],
     default=dict(mem=10, timeout={'quick': 900, 'thorough': 2400}, cbmc_extra=FS, unwindset=['memcmp.0:70']),
     overrides=[(r'c06_policies_postcard_(legacy_all4|legacy_tip|expiration|owner_maxfee|all)$', dict(tier='thorough', attempt=True, mem=24, timeout=1500))],
     min_harnesses={'quick': 4, 'thorough': 9},
     functions_encoded=['<Policies as serde::Serialize>::serialize, <Policies as serde::Deserialize>::deserialize (hand-written, legacy vs compact layout)', 'postcard::{to_allocvec, from_bytes}, bincode::{serialize, deserialize} (real)', 'Policies::{get, set, bits}'],
     bounds=['bincode (fixed-width integers): masks {maturity (legacy layout), owner (compact layout), all six} as harness constants, all values symbolic (maturity / expiration: u32, the documented validity)', 'postcard: the empty mask; masks with values are thorough-tier attempts (postcard varints make the encoded length depend on the symbolic values: out of memory at 10 GB)'],
     assumptions=['Result::{expect,unwrap} replaced by non-formatting models (K2)'],
     out_of_claim=['serde_json (decimal/float/string formatting: each u64 is a data-dependent digit loop, the textbook explosion case for bounded symbolic execution)', 'transactions, receipts, consensus parameters and gas cost tables (serde_derive-generated impls, mechanical)',
                   'UpgradeMetadata::compute: postcard decoding of a whole ConsensusParameters value plus SHA-256 checksum', 'the other 55 masks'],
     level_text='Bounded model checking of the hand-written serde implementation of Policies through the real postcard and bincode codecs: for legacy-layout and compact-layout masks with symbolic values the deserialized value equals the original, entry by entry, including the newer owner and expiration entries.',
     level_note='Trusted: Kani/CBMC/cadical. Partial claim (Policies serde; JSON and the derive-generated impls are out).')

# ---------------------------------------------------------------------------------------
def opts_for(pid, h, tier):
    spec = PROPS[pid]
    o = dict(mem=8, timeout={'quick': 300, 'thorough': 1800}, tier='quick')
    o.update(spec.get('default', {}))
    for rx, ov in spec.get('overrides', []):
        if re.search(rx, h['pretty_name']):
            o.update(ov)
    t = o.get('timeout')
    if isinstance(t, dict):
        o['timeout'] = t[tier]
    m = o.get('mem')
    if isinstance(m, dict):
        o['mem'] = m[tier]
    return o


def select(pid, harnesses, tier, seed):
    spec = PROPS[pid]
    sel = []
    rot = []
    for h in harnesses:
        o = opts_for(pid, h, tier)
        if o.get('skip'):
            continue
        if tier == 'thorough':
            sel.append(h)
        elif o.get('tier', 'quick') == 'quick':
            sel.append(h)
        elif o.get('tier') == 'rotate':
            rot.append(h)
    if tier == 'quick' and rot:
        rnd = random.Random(seed)
        rot.sort(key=lambda h: h['pretty_name'])
        k = spec.get('rotate_pick', 4)
        rnd.shuffle(rot)
        sel += rot[:k]
    sel.sort(key=lambda h: h['pretty_name'])
    return sel


def load_known_findings():
    p = os.path.join(VERIF, 'known_findings.json')
    if not os.path.exists(p):
        return []
    return json.load(open(p)).get('findings', [])


def write_evidence(pid, tier, seed, results, ok, violations, known_hits, inconclusive, wall, build_s,
                   partial=False, pre_results=(), attempts=()):
    spec = PROPS[pid]
    covers = sum(r.get('covers_sat', 0) for r in ok)
    n_checks = sum(r.get('n_checks', 0) for r in results)
    samples = []
    for r in results:
        if len(samples) >= 3:
            break
        for desc, trace in (r.get('cover_traces') or [])[:1]:
            inputs = K.trace_inputs(trace, limit=24)
            samples.append(dict(harness=r['harness'], cover=desc, solver_assignment=inputs))
    if not samples:
        samples = [dict(harness=r['harness'], status=r['status'], checks=r.get('n_checks')) for r in results[:3]] or ['no harness ran']
    stubs = sorted({json.dumps(s, sort_keys=True) if not isinstance(s, str) else s for r in results for s in r.get('stubs', [])})
    ev = dict(
        property_id=pid, tier=tier, seed=seed, level='model_checking',
        coverage=dict(
            evaluations=len(results),
            distinct_nontrivial=covers,
            rule='one evaluation = one CBMC/cadical run of a Kani harness (all inputs symbolic within the stated bounds); '
                 'distinct_nontrivial = number of distinct kani::cover! specification branches proven reachable '
                 '(SATISFIED) in harnesses whose every check was SUCCESS',
            samples=samples,
            exhaustive=bool(spec.get('exhaustive')) and not partial and not inconclusive,
            obligations=len(results), discharged=len(ok),
            cbmc_checks_total=n_checks,
            harnesses=[dict(name=r['harness'], status=r['status'], solver_s=r.get('solver_s'), rss_mb=r.get('rss_mb'),
                            checks=r.get('n_checks'), covers='%s/%s' % (r.get('covers_sat'), r.get('covers_total')),
                            unwind=r.get('opts', {}).get('unwind'), unwindset=r.get('opts', {}).get('unwindset'))
                       for r in sorted(results, key=lambda r: r['harness'])],
            functions_encoded=spec['functions_encoded'],
            bounds=spec['bounds'],
            stubs=stubs,
            out_of_claim=spec['out_of_claim'],
            inconclusive=inconclusive,
            attempts_without_verdict=list(attempts),
            known_findings=[k['description'] for k, _ in known_hits],
            solver='CBMC 6.11.0 + cadical (via Kani 0.68.0 goto binaries)',
            solver_time_s=round(sum(r.get('solver_s', 0) for r in results), 1),
            build_time_s=round(build_s, 1),
            peak_rss_mb=max([r.get('rss_mb', 0) for r in results] or [0]),
            prechecks=list(pre_results),
            partial_run=partial,
        ),
        assumptions=COMMON_ASSUMPTIONS + spec['assumptions'],
        wall_s=round(wall, 1),
        violations=len(violations),
    )
    os.makedirs(os.path.join(VERIF, 'evidence'), exist_ok=True)
    with open(os.path.join(VERIF, 'evidence', pid + '.json'), 'w') as f:
        json.dump(ev, f, indent=1, default=str)
