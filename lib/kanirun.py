"""Engine: build Kani harnesses from /repo's working tree, run CBMC per harness in
parallel under memory/time caps, classify per-property results.

Pipeline per harness (identical to what `cargo kani --verbose` prints for Kani 0.68;
re-implemented here so that each CBMC process gets its own `ulimit -v`, timeout,
`--unwindset`, and so that harnesses run in parallel from a single build):

  cargo kani --only-codegen [--harness <filter>]           -> <h>.symtab.out (+ kani-metadata.json)
  goto-cc <h>.symtab.out kani_lib.c -o <h>.out
  goto-cc <h>.out --function <mangled> -o <h>.out
  goto-instrument --add-library --no-malloc-may-fail
  goto-instrument --generate-function-body-options assert-false-assume-false --generate-function-body .* --drop-unused-functions
  goto-instrument --ensure-one-backedge-per-target
  cbmc <kani's flags> [--unwind N --unwinding-assertions] [--unwindset ...] --json-ui
"""
import fcntl
import glob
import json
import os
import re
import shutil
import signal
import subprocess
import sys
import threading
import time

VERIF = os.path.dirname(os.path.dirname(os.path.abspath(__file__)))
WORK = os.environ.get('VERIF_WORK') or os.path.join(VERIF, '.work')
REPO = os.environ.get('VERIF_REPO', '/repo')
KANI_HOME = os.path.expanduser('~/.kani/kani-0.68.0')
KANI_LIB_C = os.path.join(KANI_HOME, 'library/kani/kani_lib.c')
GUARD_CFG = 'fuellabs_fuel_vm_verif'

CBMC_BASE = ['--no-malloc-may-fail', '--no-undefined-shift-check', '--no-signed-overflow-check',
             '--nan-check', '--no-self-loops-to-assumptions', '--no-pointer-primitive-check',
             '--object-bits', '16', '--sat-solver', 'cadical', '--slice-formula']

# crates that hold harnesses: name -> (manifest dir, package, needs guard cfg)
CRATES = {
    # VERIF_EXT_DIR: a copy of harness/ext whose path dependencies point at another checkout (bin/test_seeded)
    'ext': dict(dir=os.environ.get('VERIF_EXT_DIR') or os.path.join(VERIF, 'harness', 'ext'), package='verif-ext', guard=False),
    'vm': dict(dir=os.path.join(REPO, 'fuel-vm'), package='fuel-vm', guard=True, features='test-helpers'),
    'crypto': dict(dir=os.path.join(REPO, 'fuel-crypto'), package='fuel-crypto', guard=True),
}


def log(*a):
    print(*a, file=sys.stderr, flush=True)


def env_for(crate):
    env = dict(os.environ)
    env['CARGO_NET_OFFLINE'] = 'true'
    env['FUELLABS_FUEL_VM_VERIF_DIR'] = os.path.join(VERIF, 'harness')
    if CRATES[crate]['guard']:
        env['RUSTFLAGS'] = (env.get('RUSTFLAGS', '') + ' --cfg ' + GUARD_CFG).strip()
    return env


class BuildError(Exception):
    pass


def write_stamp(crate):
    d = os.path.join(CRATES['ext']['dir'], 'src') if crate == 'ext' else os.path.join(VERIF, 'harness', 'incrate')
    with open(os.path.join(d, 'build_stamp.rs'), 'w') as f:
        f.write('// rewritten before every build (forces recompilation of the harness crate)\n'
                'pub const VERIF_BUILD_STAMP: u128 = %d;\n' % time.time_ns())


def build(crate, filters, rundir, extra_args=()):
    """Codegen the harnesses matching `filters` (substring filters) and copy their goto
    symtabs into rundir.  Returns list of harness metadata dicts (with 'symtab' path)."""
    c = CRATES[crate]
    tdir = os.path.join(WORK, 'target-' + crate)
    os.makedirs(tdir, exist_ok=True)
    os.makedirs(rundir, exist_ok=True)
    if crate == 'ext':
        # path deps point at /repo; keep the lock file identical to the repository's
        shutil.copyfile(os.path.join(REPO, 'Cargo.lock'), os.path.join(c['dir'], 'Cargo.lock'))
    cmd = ['cargo', 'kani', '--only-codegen', '-Z', 'stubbing', '-Z', 'unstable-options',
           '--no-assertion-reach-checks', '--target-dir', tdir]
    if crate != 'ext':
        cmd += ['-p', c['package']]
    if c.get('features'):
        cmd += ['--features', c['features']]
    for f in filters:
        cmd += ['--harness', f]
    cmd += list(extra_args)
    lockf = open(os.path.join(WORK, 'build-%s.lock' % crate), 'w')
    if not os.environ.get('VERIF_HAVE_BUILD_LOCK'):   # bin/test_seeded holds both build locks itself
        fcntl.flock(lockf, fcntl.LOCK_EX)
    try:
        t0 = time.time()
        # Force recompilation of the harness-holding crate: Kani writes per-harness goto files
        # under names that do not depend on the harness filter, so a cargo-"fresh" build could
        # leave artefacts of a different filter behind.  The stamp file is include!d by the
        # harness code (ext: src/lib.rs; in-crate: the /verif/harness/incrate/*.rs files).
        write_stamp(crate)
        cwd = c['dir'] if crate == 'ext' else REPO
        p = subprocess.run(cmd, cwd=cwd, env=env_for(crate), stdout=subprocess.PIPE,
                           stderr=subprocess.STDOUT, text=True)
        open(os.path.join(rundir, 'build-%s.log' % crate), 'w').write(p.stdout)
        if p.returncode != 0:
            raise BuildError('cargo kani --only-codegen failed for %s (see %s)\n%s' % (
                crate, os.path.join(rundir, 'build-%s.log' % crate), p.stdout[-3000:]))
        # newest metadata file of that crate
        pkg = c['package'].replace('-', '_')
        metas = glob.glob(os.path.join(tdir, 'kani', '*', 'debug', 'build', c['package'], '*', 'out',
                                       pkg + '-*.kani-metadata.json'))
        if not metas:
            raise BuildError('no kani-metadata.json produced for ' + crate)
        meta = max(metas, key=os.path.getmtime)
        md = json.load(open(meta))
        out = []
        for h in md['proof_harnesses']:
            src = h['goto_file']
            if not os.path.exists(src):
                raise BuildError('missing goto file ' + src)
            dst = os.path.join(rundir, re.sub(r'[^A-Za-z0-9_]', '_', h['pretty_name']) + '.symtab.out')
            shutil.copyfile(src, dst)
            h = dict(h)
            h['symtab'] = dst
            h['crate'] = crate
            out.append(h)
        return out, time.time() - t0
    finally:
        if not os.environ.get('VERIF_HAVE_BUILD_LOCK'):
            fcntl.flock(lockf, fcntl.LOCK_UN)
        lockf.close()


def _run(cmd, logf, timeout, mem_gb=None, stdout_path=None):
    """Run a command under ulimit -v and a timeout; returns (rc, wall_s, maxrss_mb, timed_out)."""
    timef = logf + '.time'
    pre = 'ulimit -v %d; ' % int(mem_gb * 1024 * 1024) if mem_gb else ''
    sh = pre + 'exec /usr/bin/time -f "%M %e" -o ' + _q(timef) + ' ' + ' '.join(_q(c) for c in cmd)
    t0 = time.time()
    so = open(stdout_path, 'w') if stdout_path else open(logf, 'a')
    se = open(logf, 'a')
    p = subprocess.Popen(['bash', '-c', sh], stdout=so, stderr=se, start_new_session=True)
    timed_out = False
    try:
        p.wait(timeout=timeout)
    except subprocess.TimeoutExpired:
        timed_out = True
        try:
            os.killpg(p.pid, signal.SIGKILL)
        except ProcessLookupError:
            pass
        p.wait()
    so.close()
    se.close()
    rss = 0
    try:
        parts = open(timef).read().split()
        rss = int(parts[-2]) // 1024
    except Exception:
        pass
    return p.returncode, time.time() - t0, rss, timed_out


def _q(s):
    return "'" + str(s).replace("'", "'\\''") + "'"


def prepare_goto(h, rundir):
    """symtab -> instrumented goto binary.  Returns path or raises."""
    base = h['symtab'][:-len('.symtab.out')]
    out = base + '.out'
    logf = base + '.log'
    steps = [
        ['goto-cc', h['symtab'], KANI_LIB_C, '-o', out],
        ['goto-cc', out, '--function', h['mangled_name'], '-o', out],
        ['goto-instrument', '--add-library', '--no-malloc-may-fail', out, out],
        ['goto-instrument', '--generate-function-body-options', 'assert-false-assume-false',
         '--generate-function-body', '.*', '--drop-unused-functions', out, out],
        ['goto-instrument', '--ensure-one-backedge-per-target', out, out],
    ]
    for s in steps:
        rc, _, _, to = _run(s, logf, 600, mem_gb=16)
        if rc != 0 or to:
            raise BuildError('goto pipeline step failed: %s (log %s)' % (' '.join(s[:3]), logf))
    return out


def list_functions(goto):
    p = subprocess.run(['goto-instrument', '--list-goto-functions', goto], stdout=subprocess.PIPE,
                       stderr=subprocess.DEVNULL, text=True)
    return p.stdout


def show_loops(goto):
    p = subprocess.run(['cbmc', '--show-loops', goto], stdout=subprocess.PIPE,
                       stderr=subprocess.DEVNULL, text=True)
    loops = []
    for m in re.finditer(r'^Loop (\S+):\n\s+file (\S+) line (\d+) function (.*)$', p.stdout, re.M):
        loops.append(dict(id=m.group(1), file=m.group(2), line=int(m.group(3)), function=m.group(4)))
    return loops


def classify(cbmc_json_path):
    """Parse CBMC --json-ui output.  Returns dict(status, props, failed, covers, messages)."""
    try:
        data = json.load(open(cbmc_json_path))
    except Exception as e:
        return dict(status='ERROR', reason='unparseable CBMC output: %s' % e, props=[], failed=[],
                    covers_total=0, covers_sat=0, unsat_covers=[], n_checks=0)
    results = None
    prover = None
    errors = []
    for e in data:
        if isinstance(e, dict):
            if 'result' in e:
                results = e['result']
            if 'cProverStatus' in e:
                prover = e['cProverStatus']
            if e.get('messageType') == 'ERROR':
                errors.append(e.get('messageText', '')[:300])
    if results is None:
        return dict(status='ERROR', reason='no result array (cProverStatus=%s; %s)' % (prover, '; '.join(errors)),
                    props=[], failed=[], covers_total=0, covers_sat=0, unsat_covers=[], n_checks=0)
    failed, unwind_failed, unsupported_failed = [], [], []
    covers_total = covers_sat = 0
    unsat_covers = []
    sat_cover_keys = []
    cover_traces = []
    n_checks = 0
    undetermined = []
    for r in results:
        cls = r.get('sourceLocation', {}).get('propertyClass') or r.get('property', '').rsplit('.', 2)[-2:-1]
        if isinstance(cls, list):
            cls = cls[0] if cls else ''
        st = r['status']
        desc = r.get('description', '')
        loc = r.get('sourceLocation', {})
        item = dict(property=r.get('property'), cls=cls, status=st, description=desc[:300],
                    file=loc.get('file'), line=loc.get('line'), function=loc.get('function'))
        if cls == 'reachability_check':
            continue
        if cls == 'cover':
            covers_total += 1
            if st in ('FAILURE', 'SATISFIED'):   # CBMC encodes cover!(c) as assert(!c)
                covers_sat += 1
                sat_cover_keys.append((desc[:300], loc.get('file'), loc.get('line')))
                if 'trace' in r:
                    cover_traces.append((desc, r['trace']))
            else:
                unsat_covers.append(item)
            continue
        n_checks += 1
        if st == 'SUCCESS':
            continue
        if st == 'FAILURE':
            if cls == 'unwind' or 'unwinding assertion' in desc:
                unwind_failed.append(item)
            elif cls in ('unsupported_construct', 'unsupported') or 'is not currently supported by Kani' in desc \
                    or 'unsupported' in cls:
                item['trace'] = r.get('trace')
                unsupported_failed.append(item)
            else:
                item['trace'] = r.get('trace')
                failed.append(item)
        else:
            undetermined.append(item)
    status = 'SUCCESS'
    if failed:
        status = 'FAILURE'
    elif unsupported_failed:
        status = 'UNSUPPORTED'
    elif unwind_failed:
        status = 'UNWIND'
    elif undetermined:
        status = 'UNDETERMINED'
    elif unsat_covers and covers_sat == 0:
        # no reachability witness at all in this harness.  (Covers that live in helper functions
        # shared by several harness instances need only be reached by *one* instance: the driver
        # checks that union per property, see bin/check.)
        status = 'VACUOUS'
    return dict(status=status, failed=failed, unwind_failed=unwind_failed,
                unsupported_failed=unsupported_failed, covers_total=covers_total, covers_sat=covers_sat,
                unsat_covers=unsat_covers, n_checks=n_checks, cover_traces=cover_traces, sat_cover_keys=sat_cover_keys,
                undetermined=undetermined)


def trace_inputs(trace, limit=40):
    """Extract the nondeterministic inputs (kani::any values) from a CBMC json trace."""
    vals = []
    if not trace:
        return vals
    for st in trace:
        if st.get('stepType') != 'assignment':
            continue
        lhs = st.get('lhs', '')
        fn = st.get('sourceLocation', {}).get('function', '') or ''
        # kani::any_raw_* internal results: `var_N` inside kani::any_raw..., keep harness-level ones
        if lhs.startswith('goto_symex$$return_value') and 'any_raw' in lhs:
            v = st.get('value', {})
            data = v.get('data') if isinstance(v, dict) else None
            if data is None and isinstance(v, dict):
                data = _flatten_value(v)
            vals.append(dict(lhs=lhs, value=data))
            if len(vals) >= limit:
                break
    return vals


def _flatten_value(v):
    if 'data' in v:
        return v['data']
    if 'elements' in v:
        return [_flatten_value(e.get('value', {})) for e in v['elements']][:64]
    if 'members' in v:
        return {m.get('name'): _flatten_value(m.get('value', {})) for m in v['members']}
    return None


def run_harness(h, opts, rundir):
    """opts: dict(unwind, unwindset(list), mem, timeout, cbmc_extra).  Returns result dict."""
    t0 = time.time()
    res = dict(harness=h['pretty_name'], crate=h['crate'], opts={k: v for k, v in opts.items()})
    try:
        goto = prepare_goto(h, rundir)
    except BuildError as e:
        res.update(status='ERROR', reason=str(e), wall_s=time.time() - t0, solver_s=0, rss_mb=0)
        return res
    base = goto[:-len('.out')]
    cmd = ['cbmc'] + CBMC_BASE + [goto]
    unwind = opts.get('unwind') or h['attributes'].get('unwind_value')
    if unwind:
        cmd += ['--unwind', str(unwind)]
    if opts.get('unwindset'):
        cmd += ['--unwindset', ','.join(opts['unwindset'])]
    cmd += ['--unwinding-assertions']
    cmd += list(opts.get('cbmc_extra', []))
    cmd += ['--json-ui']
    jpath = base + '.cbmc.json'
    rc, wall, rss, to = _run(cmd, base + '.log', opts.get('timeout', 300), mem_gb=opts.get('mem', 8),
                             stdout_path=jpath)
    res.update(solver_s=round(wall, 2), rss_mb=rss, rc=rc, goto=goto, json=jpath)
    if to:
        res.update(status='TIMEOUT', reason='cbmc exceeded %ss' % opts.get('timeout', 300))
    else:
        c = classify(jpath)
        if c['status'] == 'ERROR' and (rc not in (0, 10)):
            # killed by the memory limit or crashed
            c['reason'] = (c.get('reason', '') + ' rc=%s (out of memory under ulimit -v %sG?)' % (rc, opts.get('mem', 8)))
            c['status'] = 'OOM' if rss > 0.8 * 1024 * opts.get('mem', 8) or rc in (134, 137, 139, -6, -9, 6) else 'ERROR'
        res.update(c)
    res['wall_s'] = round(time.time() - t0, 2)
    res['stubs'] = [s.get('original', s) if isinstance(s, dict) else s for s in h['attributes'].get('stubs', [])]
    # keep disk use small: drop goto binaries and big json of passing harnesses
    if res.get('status') == 'SUCCESS':
        for p in (goto, h['symtab']):
            try:
                os.remove(p)
            except OSError:
                pass
    return res


def run_all(harnesses, opts_for, rundir, mem_budget_gb=48, max_par=14, progress=None):
    """Run harnesses in parallel, admitting by declared memory class."""
    pending = sorted(harnesses, key=lambda h: -opts_for(h).get('mem', 8))
    results = []
    lock = threading.Lock()
    cv = threading.Condition(lock)
    state = dict(mem=0, n=0)

    def worker(h, o):
        try:
            r = run_harness(h, o, rundir)
        except Exception as e:  # never lose a harness silently
            r = dict(harness=h['pretty_name'], crate=h['crate'], status='ERROR', reason='driver exception: %r' % e,
                     wall_s=0, solver_s=0, rss_mb=0)
        with cv:
            results.append(r)
            state['mem'] -= o.get('mem', 8)
            state['n'] -= 1
            cv.notify_all()
        if progress:
            progress(r)

    threads = []
    for h in pending:
        o = opts_for(h)
        with cv:
            while state['n'] >= max_par or (state['n'] > 0 and state['mem'] + o.get('mem', 8) > mem_budget_gb):
                cv.wait()
            state['mem'] += o.get('mem', 8)
            state['n'] += 1
        t = threading.Thread(target=worker, args=(h, o))
        t.start()
        threads.append(t)
    for t in threads:
        t.join()
    return results
