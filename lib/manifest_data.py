"""Static parts of MANIFEST.json."""
BASELINE_OFF = ("cd /repo && cargo nextest run --workspace --no-fail-fast --tool-config-file pb:/w/lib/nextest.toml "
                "--profile pb --test-threads 8 --offline || cargo test --workspace --no-fail-fast --offline")
HOOKS = dict(
    guard='--cfg fuellabs_fuel_vm_verif',
    enable='RUSTFLAGS="--cfg fuellabs_fuel_vm_verif" FUELLABS_FUEL_VM_VERIF_DIR=/verif/harness cargo kani -p fuel-vm ... (set by lib/kanirun.py for in-crate harnesses; harnesses in /verif/harness/ext need no hooks)',
    baseline_off_cmd=BASELINE_OFF,
    source_commits=['ce0b50b', 'd909ef3', 'a27ba0d', '8922f88', 'ee686b4'],
    add_only=True,
)
NOTES = ("Every check is `./bin/check <id>`: it rebuilds the Kani goto programs from /repo's working tree, runs one CBMC/cadical "
         "process per harness under ulimit -v and a timeout, requires every check SUCCESS, every unwinding assertion SUCCESS and every "
         "kani::cover! SATISFIED; exit 2 = inconclusive (never success). See DESIGN.md.")
_PENDING = 'not claimed: a solver-based check was planned (DESIGN.md §7) but not built in the time available; no harness exists, so no claim is made (see DESIGN.md §12.4)'
NOT_APPLICABLE = {
    'C12': 'sparse Merkle tree construction (insert/delete/from_set/root_from_set) does not get through CBMC: even one insert + generate_proof on a single-leaf tree with an array-backed node store and a loop-free stand-in hash gives no verdict in 900 s (build phase, with --max-field-sensitivity-array-size 512), two inserts none in 600 s / 11-16 GB (DESIGN.md §6 P13); the property is entirely about construction under histories',
    'C13': 'same code as C12 plus load/reload; nothing decidable is left once construction is out of reach (DESIGN.md §8)',
    'C16': 'compares libsecp256k1 (C behind FFI, no goto program) with k256 (256-bit modular arithmetic, out of reach for bit-blasting); both wrappers are straight-line calls into the libraries (DESIGN.md §8)',
}
NOT_APPLICABLE.update({
    'C03': 'not claimed: the id is SHA-256 over the canonical bytes through fuel_crypto::Hasher (streaming digest state); whole-transaction encoding harnesses (needed for the pre-image obligations) were planned in DESIGN.md §7 but not built in the time available',
    'C04': 'not claimed: needs whole-transaction to_bytes harnesses per kind/shape (DESIGN.md §7, P20: 2-15 min per instance); not built in the time available',
    'C05': 'not claimed: GTF/GM harnesses need a symbolic transaction inside the VM plus the C04 offsets; not built in the time available',
    'C06': 'not claimed: serde_json decimal/float formatting is out of reach for bounded symbolic execution; the postcard/bincode Policies part planned in DESIGN.md §7 was not built',
    'C07': 'not claimed: the only registry implementation in this repository is test code; the derive-generated async compress/decompress harnesses planned in DESIGN.md §7 were not built',
    'C17': 'sign/recover/verify consistency is 256-bit curve arithmetic (libsecp256k1 behind FFI, k256/p256/ed25519-dalek field arithmetic): out of reach for bit-blasting; the signature_format / VM glue harnesses planned in DESIGN.md §7 were not built',
    'C19': 'not claimed: the balance half was built (harness/incrate/vm/c19_balances.rs: initial_free_balances against an exact wide-integer reference for three transaction shapes) but gives CBMC no verdict within 900 s even with concrete asset ids: the function keeps its per-asset sums in a hard-wired BTreeMap<AssetId, Word> (32-byte keys; B-tree tables with 32/64-byte keys gave no verdict anywhere in this code base, DESIGN.md 13.2); the accept/reject half (check_common_part, ~45 rules) reaches itertools hash sets (K5) and its reference was not built',
    'C20': 'not claimed: signature recovery is curve arithmetic (see C17) and Input::check_signature keeps its recovery cache in a HashMap (K5); predicate verification is a whole-VM run; the aggregation step finalize_check_predicate was built for arbitrary per-predicate outcomes (harness/incrate/vm/c20_predicates.rs: order independence, checked sum, estimation write-back by input index) but gives no verdict within 900 s with three or with two predicate inputs: it calls Chargeable::max_gas -> gas_used_by_inputs, whose HashSet<u16> witness de-duplication CBMC explores (K5) because the input variants read back from the heap-allocated Vec<Input> are not constants for it',
    'C27': 'not claimed: RuntimeBalances is a hashbrown map (K5) and the TR/TRO/MINT/BURN/SMO handlers need a recording InterpreterStorage; not built in the time available',
    'C30': 'not claimed: needs an InterpreterStorage implementation that records every access (RecStorage, DESIGN.md §7); not built in the time available',
    'C31': 'not claimed: whole-run equivalence of arbitrary transaction pairs is beyond bounded symbolic execution; the reduction to the initialisation step was built (harness/incrate/vm/c31_init.rs: the real init_predicate -> init_inner on a dirty interpreter versus a fresh one) but CBMC gives no verdict within 1200 s even for a fully concrete one-input transaction on a fresh interpreter with hashing and RuntimeBalances::to_vm stubbed (DESIGN.md 13.5); MemoryInstance::reset and zeroing on regrowth, the memory part of the mechanism, are decided under C23',
    'C32': 'not claimed: whole-run equivalence is beyond bounded symbolic execution; the Debugger::eval_state harness planned in DESIGN.md §7 was not built',
    'C33': 'not claimed: every storage instruction goes through Interpreter::storage_slot_cache, a hard-wired BTreeMap<(ContractId, Bytes32), Option<Vec<u8>>> with 64-byte keys, and through the storage back end; a slot-kernel harness pair (storage_read_slot cache transparency, storage_write_slot; harness/incrate/vm/c33_storage_slots.rs) gives CBMC no verdict within 1200 s, and B-tree tables with 32/64-byte keys gave no verdict in any other harness of this code base either (DESIGN.md 13.2); the storage back end can be replaced by an association list (slot_storage.rs) but the cache cannot without rewriting the code under test',
    'C35': 'not claimed: the upload/deploy/blob/upgrade step harnesses planned in DESIGN.md §7 (hook H3 into executors/main.rs) were not built in the time available',
})
