"""Static parts of MANIFEST.json."""
BASELINE_OFF = ("cd /repo && cargo nextest run --workspace --no-fail-fast --tool-config-file pb:/w/lib/nextest.toml "
                "--profile pb --test-threads 8 --offline || cargo test --workspace --no-fail-fast --offline")
HOOKS = dict(
    guard='--cfg fuellabs_fuel_vm_verif',
    enable='RUSTFLAGS="--cfg fuellabs_fuel_vm_verif" FUELLABS_FUEL_VM_VERIF_DIR=/verif/harness cargo kani -p fuel-vm ... (set by lib/kanirun.py for in-crate harnesses; harnesses in /verif/harness/ext need no hooks)',
    baseline_off_cmd=BASELINE_OFF,
    source_commits=[],
    add_only=True,
)
NOTES = ("Every check is `./bin/check <id>`: it rebuilds the Kani goto programs from /repo's working tree, runs one CBMC/cadical "
         "process per harness under ulimit -v and a timeout, requires every check SUCCESS, every unwinding assertion SUCCESS and every "
         "kani::cover! SATISFIED; exit 2 = inconclusive (never success). See DESIGN.md.")
_PENDING = 'not yet built in this revision of /verif (planned in DESIGN.md §7); no claim is made'
NOT_APPLICABLE = {
    'C12': 'sparse Merkle tree construction (insert/delete/from_set/root_from_set) does not get through CBMC: two operations on two concrete keys with a loop-free stand-in hash give no verdict in 600 s / 11-16 GB (DESIGN.md §6 P13); the property is entirely about construction under histories',
    'C13': 'same code as C12 plus load/reload; nothing decidable is left once construction is out of reach (DESIGN.md §8)',
    'C16': 'compares libsecp256k1 (C behind FFI, no goto program) with k256 (256-bit modular arithmetic, out of reach for bit-blasting); both wrappers are straight-line calls into the libraries (DESIGN.md §8)',
}
for _p in ['C01','C02','C03','C04','C05','C06','C07','C09','C10','C11','C14','C15','C17','C18','C19','C20','C21','C22','C23','C24',
           'C25','C26','C27','C28','C29','C30','C31','C32','C33','C34','C35','C36']:
    NOT_APPLICABLE.setdefault(_p, _PENDING)
