// Counterexample replay for property C11, harness c11::h_pr::c11_prove_j0
// Failed checks reported by CBMC:
//   This is a placeholder message; Kani doesn't support message formatted at runtime (/home/runner/.rustup/toolchains/nightly-2026-08-21-x86_64-unknown-linux-gnu/lib/rustlib/src/rust/library/core/src/option.rs:2257)
// Re-run: /verif/bin/check C11 --replay /verif/replays/C11/c11_h_pr_c11_prove_j0.rs
/// Test generated for harness `c11::h_pr::c11_prove_j0` 
///
/// Check for `assertion`: "This is a placeholder message; Kani doesn't support message formatted at runtime"
///
/// # Warning
///
/// Concrete playback tests combined with stubs or contracts is highly
/// experimental, and subject to change.
///
/// The original harness has stubs which are not applied to this test.
/// This may cause a mismatch of non-deterministic values if the stub
/// creates any non-deterministic value.
/// The execution path may also differ, which can be used to refine the stub
/// logic.

#[test]
fn kani_concrete_playback_c11_prove_j0_18339748547866110840() {
    let concrete_vals: Vec<Vec<u8>> = vec![
        // 0
        vec![0],
        // 0
        vec![0],
    ];
    kani::concrete_playback_run(concrete_vals, crate::c11::h_pr::c11_prove_j0);
}
