// Counterexample replay for property C11, harness c11::h_prpl1::c11_root
// Failed checks reported by CBMC:
//   assertion failed: eq32(&tree.root(), &fresh.root()) (src/c11.rs:72)
// Re-run: /verif/bin/check C11 --replay /verif/replays/C11/c11_h_prpl1_c11_root.rs
/// Test generated for harness `c11::h_prpl1::c11_root` 
///
/// Check for `assertion`: "assertion failed: eq32(&tree.root(), &fresh.root())"
///
/// # Warning
///
/// Concrete playback tests combined with stubs or contracts is highly
/// experimental, and subject to change.
///
/// The original harness has stubs which are not applied to this test.
/// This may cause a mismatch of non-deterministic values if the stub
/// creates any non-deterministic value.
/// The execution path may also differ, which can be used to refine the stub
/// logic.

#[test]
fn kani_concrete_playback_c11_root_656683711501048697() {
    let concrete_vals: Vec<Vec<u8>> = vec![
        // 21
        vec![21],
        // 27
        vec![27],
        // 21
        vec![21],
        // 219
        vec![219],
    ];
    kani::concrete_playback_run(concrete_vals, crate::c11::h_prpl1::c11_root);
}

/// Test generated for harness `c11::h_prpl1::c11_root` 
///
/// Check for `cover`: "history completed"
///
/// # Warning
///
/// Concrete playback tests combined with stubs or contracts is highly
/// experimental, and subject to change.
///
/// The original harness has stubs which are not applied to this test.
/// This may cause a mismatch of non-deterministic values if the stub
/// creates any non-deterministic value.
/// The execution path may also differ, which can be used to refine the stub
/// logic.

#[test]
fn kani_concrete_playback_c11_root_15307190768361245860() {
    let concrete_vals: Vec<Vec<u8>> = vec![
        // 255
        vec![255],
        // 255
        vec![255],
        // 255
        vec![255],
        // 255
        vec![255],
    ];
    kani::concrete_playback_run(concrete_vals, crate::c11::h_prpl1::c11_root);
}
