// Counterexample replay for property C11, harness c11::h_prpl1::c11_prove_j0
// Failed checks reported by CBMC:
//   assertion failed: eq_proofs(x, y) (src/c11.rs:91)
// Re-run: /verif/bin/check C11 --replay /verif/replays/C11/c11_h_prpl1_c11_prove_j0.rs
/// Test generated for harness `c11::h_prpl1::c11_prove_j0` 
///
/// Check for `assertion`: "assertion failed: eq_proofs(x, y)"
///
/// # Warning
///
/// Concrete playback tests combined with stubs or contracts is highly
/// experimental, and subject to change.
///
/// The original harness has stubs which are not applied to this test.
/// This may cause a mismatch of non-deterministic values if the stub
/// creates any non-deterministic value.
/// The execution path may also differ, which can be used to refine the stub
/// logic.

#[test]
fn kani_concrete_playback_c11_prove_j0_5519194074553602291() {
    let concrete_vals: Vec<Vec<u8>> = vec![
        // 0
        vec![0],
        // 0
        vec![0],
        // 0
        vec![0],
        // 128
        vec![128],
    ];
    kani::concrete_playback_run(concrete_vals, crate::c11::h_prpl1::c11_prove_j0);
}

/// Test generated for harness `c11::h_prpl1::c11_prove_j0` 
///
/// Check for `cover`: "proof compared"
///
/// # Warning
///
/// Concrete playback tests combined with stubs or contracts is highly
/// experimental, and subject to change.
///
/// The original harness has stubs which are not applied to this test.
/// This may cause a mismatch of non-deterministic values if the stub
/// creates any non-deterministic value.
/// The execution path may also differ, which can be used to refine the stub
/// logic.

#[test]
fn kani_concrete_playback_c11_prove_j0_13084767829223768375() {
    let concrete_vals: Vec<Vec<u8>> = vec![
        // 255
        vec![255],
        // 255
        vec![255],
        // 255
        vec![255],
        // 255
        vec![255],
    ];
    kani::concrete_playback_run(concrete_vals, crate::c11::h_prpl1::c11_prove_j0);
}
