// Counterexample replay for property C11, harness c11::h_ppl2rp::c11_count
// Failed checks reported by CBMC:
//   assertion failed: tree.leaves_count() == n_live as u64 (src/c11.rs:63)
// Re-run: /verif/bin/check C11 --replay /verif/replays/C11/c11_h_ppl2rp_c11_count.rs
/// Test generated for harness `c11::h_ppl2rp::c11_count` 
///
/// Check for `assertion`: "assertion failed: tree.leaves_count() == n_live as u64"
///
/// # Warning
///
/// Concrete playback tests combined with stubs or contracts is highly
/// experimental, and subject to change.
///
/// The original harness has stubs which are not applied to this test.
/// This may cause a mismatch of non-deterministic values if the stub
/// creates any non-deterministic value.
/// The execution path may also differ, which can be used to refine the stub
/// logic.

#[test]
fn kani_concrete_playback_c11_count_15299824199438928224() {
    let concrete_vals: Vec<Vec<u8>> = vec![
        // 0
        vec![0],
        // 0
        vec![0],
        // 0
        vec![0],
        // 0
        vec![0],
        // 0
        vec![0],
        // 0
        vec![0],
    ];
    kani::concrete_playback_run(concrete_vals, crate::c11::h_ppl2rp::c11_count);
}
