// Counterexample replay for property C11, harness c11::h_prp::c11_prove_j1
// Failed checks reported by CBMC:
//   assertion failed: a.is_ok() == b.is_ok() (src/c11.rs:88)
// Re-run: /verif/bin/check C11 --replay /verif/replays/C11/c11_h_prp_c11_prove_j1.rs
/// Test generated for harness `c11::h_prp::c11_prove_j1` 
///
/// Check for `assertion`: "assertion failed: a.is_ok() == b.is_ok()"
///
/// # Warning
///
/// Concrete playback tests combined with stubs or contracts is highly
/// experimental, and subject to change.
///
/// The original harness has stubs which are not applied to this test.
/// This may cause a mismatch of non-deterministic values if the stub
/// creates any non-deterministic value.
/// The execution path may also differ, which can be used to refine the stub
/// logic.

#[test]
fn kani_concrete_playback_c11_prove_j1_9146740252626630275() {
    let concrete_vals: Vec<Vec<u8>> = vec![
        // 0
        vec![0],
        // 0
        vec![0],
        // 0
        vec![0],
        // 0
        vec![0],
    ];
    kani::concrete_playback_run(concrete_vals, crate::c11::h_prp::c11_prove_j1);
}
